------------------------------- MODULE Trace -------------------------------
(***************************************************************************)
(* Validation of recorded executions of the real crate against RsStore.    *)
(*                                                                         *)
(* The log (ndjson, environment variable TRACE) is a sequence of runs; a   *)
(* run starts with a "reset" record carrying the client programs and is    *)
(* followed by the events of all threads in the order of their sequence    *)
(* numbers.  An event of thread t says "t has arrived at this park point,  *)
(* with this payload, having passed these notes, the callback it left      *)
(* having answered ans" -- exactly the label of one step of t in RsStore.  *)
(* The step took effect somewhere between t's previous event and this one  *)
(* (it may contain lock-free operations), so the step is taken *silently*  *)
(* at a point TLC chooses (`Silent`), and the event only confirms it       *)
(* (`Consume`).  A step is only tried if its label equals the next event   *)
(* of that thread in the log (Rec[i].nx links the events of a thread), so  *)
(* the search stays close to linear.  The log is accepted iff some         *)
(* interleaving of silent steps explains all of it.                        *)
(***************************************************************************)
EXTENDS Props, Json, IOUtils, TLCExt

Rec == ndJsonDeserialize(IOEnv.TRACE)
NRec == Len(Rec)

VARIABLES l,        \* next record to consume
          stepped,  \* [Threads -> BOOLEAN]: the thread has taken the step its next event confirms
          cursor    \* [Threads -> index of the thread's next event in Rec, 0 if none]

tvars == <<vars, l, stepped, cursor>>

ProgOf(r) == [c \in Clients |-> IF c \in DOMAIN r.d.prog THEN r.d.prog[c] ELSE <<>>]
FirstOf(r) == [t \in Threads |-> IF t \in DOMAIN r.d.first THEN r.d.first[t] ELSE 0]

\* A delivery thread first takes an item from its channel and then calls the subscriber, whose
\* scripted callback reads the store's state: two visible operations, which the specification has as
\* one step (the read at the moment of the receive).  On free OS threads the read can be later than
\* that, so the validator does not compare it there (tools/tracecheck.py replaces it by WRd after
\* checking that it is not older than the state being delivered); controlled replays compare it.
WRd == <<<<"?", 0>>>>
Match(lb, r) == /\ lb.t = r.t /\ lb.ev = r.ev /\ lb.ans = r.ans
                /\ lb.notes = r.notes
                /\ \/ lb.d = r.d
                   \/ r.ev = "cb" /\ r.d.rd = WRd /\ [lb.d EXCEPT !.rd = WRd] = r.d

TraceInit ==
    /\ NRec >= 1 /\ Rec[1].ev = "reset"
    /\ prog = ProgOf(Rec[1])
    /\ chan = Chan0 /\ lk = Lk0 /\ state = <<>> /\ reducers = InitReducers /\ mws = InitMws
    /\ subs = <<>> /\ pool = "present" /\ tasks = <<>> /\ pc = Pc0
    /\ loc = [t \in Threads |-> Loc0] /\ sig = {} /\ m = M0 /\ h = H0 /\ lbl = Lbl0
    /\ l = 2
    /\ stepped = [t \in Threads |-> FALSE]
    /\ cursor = FirstOf(Rec[1])

CanConsume == /\ l <= NRec /\ Rec[l].ev # "reset"
              /\ Rec[l].t \in Threads /\ stepped[Rec[l].t] /\ cursor[Rec[l].t] = l

Consume ==
    /\ CanConsume
    /\ LET t == Rec[l].t IN
       /\ stepped' = [stepped EXCEPT ![t] = FALSE]
       /\ cursor' = [cursor EXCEPT ![t] = Rec[l].nx]
    /\ l' = l + 1
    /\ UNCHANGED vars

Reset ==
    /\ l <= NRec /\ Rec[l].ev = "reset"
    /\ ResetTo(ProgOf(Rec[l]))
    /\ l' = l + 1
    /\ stepped' = [t \in Threads |-> FALSE]
    /\ cursor' = FirstOf(Rec[l])

Silent(t) ==
    /\ ~stepped[t] /\ cursor[t] # 0
    /\ Step(t)
    /\ Match(lbl', Rec[cursor[t]])
    /\ stepped' = [stepped EXCEPT ![t] = TRUE]
    /\ UNCHANGED <<l, cursor>>

TraceNext ==
    IF CanConsume THEN Consume
    ELSE \/ Reset
         \/ \E t \in Threads : Silent(t)

TraceSpec == TraceInit /\ [][TraceNext]_tvars

(* registers: 1 = furthest record reached, 2 = end reached, 3 = start of the latest run reached.    *)
(* Once some explanation has got past a "reset", the unexplored alternatives of earlier runs are   *)
(* irrelevant (a reset forgets everything), so they are cut; with TLC's depth-first queue the     *)
(* search of an accepted log is then close to linear.                                             *)
Track == /\ (l > TLCGet(1) => TLCSet(1, l))
         /\ (l = NRec + 1 => TLCSet(2, TRUE))
         /\ (l > 1 /\ l - 1 <= NRec /\ Rec[l - 1].ev = "reset" /\ l > TLCGet(3) => TLCSet(3, l))
         /\ l >= TLCGet(3)
         /\ (TLCGet(2) => l = NRec + 1)
ASSUME TLCSet(1, 0) /\ TLCSet(2, FALSE) /\ TLCSet(3, 0)

Accepted ==
    /\ PrintT(<<"TRACE-RESULT", TLCGet(2), TLCGet(1), NRec>>)
    /\ TLCGet(2)
=============================================================================
