CONSTANTS
 Clients <- MCClients
 Programs <- MCPrograms
 Acts <- MCActs
 Kind <- MCKind
 Cap = 1
 Pol = "block"
 InitReducers <- MCInitReducers
 InitMws <- MCInitMws
 RedScript <- MCRedScript
 MwScript <- MCMwScript
 MwVerdicts = {}
 MwRemove <- MCMwScript
 Subs = {"s1"}
 SubKind <- MCSubKind
 SubCap <- MCSubCap
 SubPol <- MCSubPol
 MaxTasks = 3
 CbReads = TRUE
 Defects = {"F2","F3","F6"}
INIT Init
NEXT Next
CHECK_DEADLOCK FALSE
