------------------------------- MODULE Builder -------------------------------
(***************************************************************************)
(* StoreBuilder (builder.rs) as a record of settings: one operator per     *)
(* builder method, written to mirror the code line by line, and `Build`    *)
(* with its three validations.  Every call sequence up to MaxLen over the  *)
(* alphabet `Calls` is enumerated; TLC prints each with the expected       *)
(* settings and build result and the harness executes it on a real         *)
(* StoreBuilder, probing the built store (C17).                            *)
(***************************************************************************)
EXTENDS Integers, Sequences, TLC, Json

CONSTANTS MaxLen,
          Defects   \* {"F1"}: with_capacity also resets the without_reducer flag (builder.rs:101)

C(m, n, s, l) == [m |-> m, n |-> n, s |-> s, l |-> l]     \* method, number, string, list argument

Calls == {
    C("with_name", 0, "a", <<>>), C("with_name", 0, "", <<>>), C("with_name", 0, " ", <<>>),
    C("with_reducer", 0, "r1", <<>>), C("with_reducers", 0, "", <<"r1", "r2">>), C("with_reducers", 0, "", <<>>),
    C("add_reducer", 0, "r3", <<>>), C("without_reducer", 0, "", <<>>),
    C("with_capacity", 0, "", <<>>), C("with_capacity", 1, "", <<>>), C("with_capacity", 2, "", <<>>),
    C("with_policy", 0, "block", <<>>), C("with_policy", 0, "oldest", <<>>), C("with_policy", 0, "latest", <<>>),
    C("with_middleware", 0, "m1", <<>>), C("with_middlewares", 0, "", <<"m1", "m2">>), C("with_middlewares", 0, "", <<>>),
    C("add_middleware", 0, "m3", <<>>) }

Group(c) == CASE c.m = "with_name" -> "name"
              [] c.m \in {"with_reducer", "with_reducers", "add_reducer", "without_reducer"} -> "reducers"
              [] c.m = "with_capacity" -> "capacity"
              [] c.m = "with_policy" -> "policy"
              [] c.m \in {"with_middleware", "with_middlewares", "add_middleware"} -> "middlewares"

VARIABLES cfg, seq, start
vars == <<cfg, seq, start>>

Cfg0 == [name |-> "store", reds |-> <<>>, without |-> FALSE, cap |-> 16, pol |-> "block", mws |-> <<>>]   \* builder.rs:29-40

Apply(c, f) ==
    CASE c.m = "with_name"        -> [f EXCEPT !.name = c.s]                                   \* l.59
      [] c.m = "with_reducer"     -> [f EXCEPT !.reds = <<c.s>>, !.without = FALSE]            \* l.71
      [] c.m = "with_reducers"    -> [f EXCEPT !.reds = c.l, !.without = FALSE]                \* l.78
      [] c.m = "add_reducer"      -> [f EXCEPT !.reds = Append(@, c.s)]                        \* l.88
      [] c.m = "without_reducer"  -> [f EXCEPT !.without = TRUE]                               \* l.94
      [] c.m = "with_capacity"    -> IF "F1" \in Defects
                                     THEN [f EXCEPT !.cap = c.n, !.without = FALSE]            \* l.99-101 (defect F1)
                                     ELSE [f EXCEPT !.cap = c.n]
      [] c.m = "with_policy"      -> [f EXCEPT !.pol = c.s]                                    \* l.106
      [] c.m = "with_middleware"  -> [f EXCEPT !.mws = <<c.s>>]                                \* l.112
      [] c.m = "with_middlewares" -> [f EXCEPT !.mws = c.l]                                    \* l.121
      [] c.m = "add_middleware"   -> [f EXCEPT !.mws = Append(@, c.s)]                         \* l.130

BuildOk(f) == ~((~f.without /\ f.reds = <<>>) \/ f.name = "" \/ f.cap = 0)                     \* l.139-148

Cfg0r == [Cfg0 EXCEPT !.reds = <<"r0">>]                       \* StoreBuilder::new_with_reducer, builder.rs:42-56
Init == /\ start \in {"new", "new_with_reducer"}
        /\ cfg = IF start = "new" THEN Cfg0 ELSE Cfg0r
        /\ seq = <<>>
Next == \E c \in Calls : Len(seq) < MaxLen /\ cfg' = Apply(c, cfg) /\ seq' = Append(seq, c) /\ UNCHANGED start
Spec == Init /\ [][Next]_vars

(* C17 *)
C17_Valid == BuildOk(cfg) <=> (cfg.cap # 0 /\ cfg.name # "" /\ (cfg.reds # <<>> \/ cfg.without))
C17_Independent == \A f, g \in Calls : Group(f) # Group(g) => Apply(g, Apply(f, cfg)) = Apply(f, Apply(g, cfg))
Setter(c) == c.m \in {"with_name", "with_reducer", "with_reducers", "with_capacity", "with_policy",
                      "with_middleware", "with_middlewares"}
C17_LastWins == \A f, g \in Calls : Setter(g) /\ Group(f) = Group(g) /\ f.m # "without_reducer" =>
                    Apply(g, Apply(f, cfg)) = Apply(g, cfg)
C17_Append == /\ Apply(C("add_reducer", 0, "r3", <<>>), cfg).reds = Append(cfg.reds, "r3")
              /\ Apply(C("add_middleware", 0, "m3", <<>>), cfg).mws = Append(cfg.mws, "m3")
(* the settings are exactly the last setting of each option: a record-of-last-settings replay of seq *)
RECURSIVE Replay(_, _)
Replay(s, f) == IF s = <<>> THEN f ELSE Replay(Tail(s), Apply(Head(s), f))
C17_Record == cfg = Replay(seq, IF start = "new" THEN Cfg0 ELSE Cfg0r)

Emit == PrintT(<<"SEQ", ToJson([start |-> start, seq |-> seq, cfg |-> cfg, ok |-> BuildOk(cfg)])>>)
=============================================================================
