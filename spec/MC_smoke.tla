---- MODULE MC_smoke ----
EXTENDS RsStore
D(a, via) == Op("dispatch", a, via, "-")
O(o) == Op(o, 0, "-", "-")
OS(o, s) == Op(o, 0, "-", s)
MCClients == {"c1", "c2", "c3"}
MCPrograms == {[c \in MCClients |-> CASE c = "c1" -> <<D(1,"impl"), D(2,"trait")>>
                                      [] c = "c2" -> <<OS("add_sub","s1"), D(3,"impl"), OS("unsub","s1")>>
                                      [] c = "c3" -> <<O("stop"), O("get_state")>>]}
MCActs == {1,2,3}
MCKind == [a \in MCActs |-> a % 2]
MCRedScript == [r \in {"r1"} |-> [k \in {0,1} |-> [op |-> "D", eff |-> IF k = 1 THEN [k |-> "task", a |-> 0] ELSE NoEff]]]
MCMwScript == [x \in {} |-> 0]
MCSubKind == [s \in {"s1"} |-> "direct"]
MCSubCap == [s \in {"s1"} |-> 1]
MCSubPol == [s \in {"s1"} |-> "block"]
MCInitReducers == <<"r1">>
MCInitMws == <<>>
====
