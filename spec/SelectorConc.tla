--------------------------- MODULE SelectorConc ---------------------------
(***************************************************************************)
(* SelectorSubscriber under concurrent notifiers (one subscriber object    *)
(* registered in several stores is notified from several reducer threads). *)
(* subscriber.rs:102-113 holds the last_value mutex from the comparison,   *)
(* through the callback, to the update of the cache: whole notifications   *)
(* are serialised, so the delivered values are the de-duplicated stream of *)
(* the notifications *in the order in which they took the mutex*.          *)
(* Two callers, one notification each, after an optional earlier delivery  *)
(* (prior); every terminal state is printed and replayed on a real         *)
(* SelectorSubscriber by harness/src/bin/seqlib.rs (mode selconc): where   *)
(* the model has the second caller waiting for the mutex, the harness      *)
(* checks that it really waits (C16).                                      *)
(***************************************************************************)
EXTENDS Integers, Sequences, FiniteSets, TLC, Json

CONSTANTS Vals, Callers

VARIABLES last,   \* cache: the value delivered last, 0 = none            (last_value)
          prior,  \* the cache at the start (history)
          mtx,    \* 0 or the caller holding last_value's mutex
          pc,     \* caller -> "idle" | "cb" | "done"
          val,    \* caller -> the value it notifies
          order,  \* values in the order in which their callers took the mutex
          out,    \* callbacks so far
          waited  \* callers that found the mutex taken when they were ready   (history)

vars == <<last, prior, mtx, pc, val, order, out, waited>>

Init == /\ last \in Vals \cup {0} /\ prior = last
        /\ mtx = 0 /\ pc = [c \in Callers |-> "idle"] /\ val \in [Callers -> Vals]
        /\ order = <<>> /\ out = <<>> /\ waited = {}

Lock(c) ==                   \* l.104: lock; l.106-107: compare; l.109: callback (lock still held)
    /\ pc[c] = "idle" /\ mtx = 0
    /\ order' = Append(order, val[c])
    /\ IF val[c] # last
       THEN /\ mtx' = c /\ pc' = [pc EXCEPT ![c] = "cb"] /\ out' = Append(out, val[c])
            /\ waited' = waited \cup {d \in Callers : d # c /\ pc[d] = "idle"}
       ELSE /\ pc' = [pc EXCEPT ![c] = "done"] /\ UNCHANGED <<mtx, out, waited>>
    /\ UNCHANGED <<last, prior, val>>

CbRet(c) ==                  \* the callback returns; l.110: cache updated; guard dropped
    /\ pc[c] = "cb"
    /\ last' = val[c] /\ mtx' = 0 /\ pc' = [pc EXCEPT ![c] = "done"]
    /\ UNCHANGED <<prior, val, order, out, waited>>

Next == \E c \in Callers : Lock(c) \/ CbRet(c)
Spec == Init /\ [][Next]_vars

RECURSIVE Dedupe(_, _, _)
Dedupe(s, k, prev) ==
    IF k > Len(s) THEN <<>>
    ELSE IF s[k] # prev THEN <<s[k]>> \o Dedupe(s, k + 1, s[k]) ELSE Dedupe(s, k + 1, prev)

Done == \A c \in Callers : pc[c] = "done"
C16_Serial == Cardinality({c \in Callers : pc[c] = "cb"}) <= 1
C16_ConcDedup == Done => out = Dedupe(order, 1, prior)
C16_CacheIsLastDelivered == mtx = 0 => last = IF out = <<>> THEN prior ELSE out[Len(out)]

EmitEnd == Done => PrintT(<<"SEQ", ToJson([prior |-> prior, order |-> order, out |-> out,
                                            waits |-> Cardinality(waited) > 0])>>)
=============================================================================
