------------------------------ MODULE RsStore ------------------------------
(***************************************************************************)
(* rs-store (rookiecj/rs-store 2.1.0) at the grain of its park points.     *)
(*                                                                         *)
(* A *park point* is a place where a thread of the implementation can be   *)
(* held by the verification harness: the cfg(rs_store_verif) hook points   *)
(* in the crate, the entry of every scripted user callback, and the gap    *)
(* between two public calls of a client thread.  One step of thread t in   *)
(* this specification is the code t executes from one park point to the    *)
(* next one.  It is written as a small interpreter: `Micro` is one         *)
(* statement-sized piece of the implementation (the comment gives file and *)
(* line of the pinned tree), `Run` repeats `Micro` until the thread parks  *)
(* again.  A step is enabled iff the first blocking operation after the    *)
(* park point can complete (`CanLeave`); every blocking operation of the   *)
(* implementation (mutex, bounded send, receive, join) directly follows a  *)
(* park point, which `Micro` asserts.                                      *)
(*                                                                         *)
(* Every step is labelled: lbl = [t, ev, d, notes, ans] is the hook event  *)
(* the thread arrives at, its payload, the non-parking hook events it      *)
(* passed on the way, and the answer the callback it left gave.  The       *)
(* labels are what binds the specification to the code: TLC behaviours are *)
(* replayed label by label on the real crate and recorded executions are   *)
(* checked label by label against `Next` (Trace.tla).                      *)
(***************************************************************************)
EXTENDS Integers, Sequences, FiniteSets, TLC

CONSTANTS
    Clients,      \* set of client thread names ("c1", "c2", ...)
    Programs,     \* set of functions [Clients -> Seq(Op)]; Init picks one
    Acts,         \* set of action ids (positive integers)
    Kind,         \* [Acts -> kind]
    Cap, Pol,     \* dispatch queue: capacity, "block" | "oldest" | "latest"
    InitReducers, \* Seq of reducer ids registered by the builder
    InitMws,      \* Seq of middleware ids registered by the builder
    RedScript,    \* [reducer id -> [kind -> [op : {"D","K","G"}, eff : EffectDesc]]]; "G": answers Dispatch, but
                  \* the scripted reducer raises the signal "in" when it is called and returns only once
                  \* the signal "go" is up (a reducer that is held up by something outside the store)
    MwScript,     \* [mw id -> [phase -> [kind -> "C"|"D"|"B"|"E"|"*"]]], "*" = any of MwVerdicts
    MwVerdicts,   \* the answers a "*" entry may give
    MwRemove,     \* [mw id -> [kind -> "none" | "first" | "all"]]  (before_effect)
    MwDisp,       \* [mw id -> [kind -> action id | 0]]: before_dispatch dispatches this through its dispatcher
    Subs,         \* set of subscriber ids ("s1", ...)
    SubKind,      \* [Subs -> "direct" | "sel" | "chan" | "iter"]
    SubCap, SubPol, \* channel of a "chan"/"iter" subscriber
    MaxTasks,     \* bound on the number of pool tasks
    CbReads,      \* scripted callbacks call get_state() and report the value
    FineReg,      \* park also after the receive and before the reducers lock (run-time registration)
    StopTimeouts, \* stop() may give up its two waits (the library's 3 s timeouts): it then returns "timeout"
                  \* with the reducer loop still at work - which goes on to reduce everything accepted (C05)
    Defects       \* subset of {"F2","F3","F6"}: defects of the pinned tree that are modelled as such when listed.
                  \* All three are fixed in /repo (DESIGN.md 10.4), so the checks run with Defects = {}; listing one
                  \* brings the old behaviour back (e.g. to reproduce the counterexamples that led to the fixes).

VARIABLES
    prog,      \* the programs chosen in Init (never changes)
    chan,      \* [ChanIds -> [q, open, alive, rx, held]]
    lk,        \* [LockIds -> thread name | "-"]
    state,     \* the state cell: Seq of <<reducer id, action id>>
    reducers, mws, subs, \* the three registration lists
    pool,      \* "present" | "taken"
    tasks,     \* Seq of [kind, a, st]; index = task id
    pc, loc,   \* per thread: park point and locals
    sig,       \* harness-level signals raised by "signal" ops (lets a program order two clients)
    m,         \* the metrics counters
    h,         \* history, read by properties only
    lbl        \* label of the last step

vars == <<prog, chan, lk, state, reducers, mws, subs, pool, tasks, pc, loc, sig, m, h, lbl>>

EXIT == 0
NONE == -1

-----------------------------------------------------------------------------
(* Names *)
WName(i) == "W" \o ToString(i)
ChName(s) == "Ch" \o s
CtxLock(s) == "ctx_" \o s
ChanSubs == {s \in Subs : SubKind[s] \in {"chan", "iter"}}
ChanIds == {"D"} \cup ChanSubs
Workers == {WName(i) : i \in 1..MaxTasks}
ChThreads == {ChName(s) : s \in {x \in Subs : SubKind[x] = "chan"}}
Threads == Clients \cup {"R"} \cup Workers \cup ChThreads
LockIds == {"tx", "subs", "mws", "reds"} \cup {CtxLock(s) : s \in {x \in Subs : SubKind[x] = "chan"}}

ChanCap(ch) == IF ch = "D" THEN Cap ELSE SubCap[ch]
ChanPol(ch) == IF ch = "D" THEN Pol ELSE SubPol[ch]

(* items of subscriber channels are records, items of the dispatch queue are action ids *)
SubItem(st, a) == [st |-> st, a |-> a]
ExitOf(ch) == IF ch = "D" THEN EXIT ELSE SubItem(<<>>, EXIT)
NoneOf(ch) == IF ch = "D" THEN NONE ELSE SubItem(<<>>, NONE)
IsAct(ch, x) == IF ch = "D" THEN x > 0 ELSE x.a > 0

NoEff == [k |-> "none", a |-> 0]
N(k, n, st) == [k |-> k, n |-> n, st |-> st]          \* a note

Op(o, a, via, s) == [op |-> o, a |-> a, via |-> via, s |-> s]

RemoveEl(seq, x) == SelectSeq(seq, LAMBDA y : y # x)
RemoveFirst(seq, x) ==       \* seq without its first occurrence of x
    LET i == CHOOSE k \in 1..Len(seq) : seq[k] = x /\ \A j \in 1..(k - 1) : seq[j] # x IN
    [k \in 1..(Len(seq) - 1) |-> IF k < i THEN seq[k] ELSE seq[k + 1]]
InSeq(seq, x) == \E i \in 1..Len(seq) : seq[i] = x
SetOfSeq(seq) == {seq[i] : i \in 1..Len(seq)}

-----------------------------------------------------------------------------
(* Initial state *)

Loc0 == [ip |-> 1, ch |-> "D", item |-> 0, sub |-> SubItem(<<>>, 0), sok |-> TRUE, ret |-> "-",
         a |-> 0, via |-> "-", us |-> "-", uret |-> "-", cont |-> "-", k |-> 1, i |-> 1,
         snap |-> <<>>, st |-> <<>>, before |-> <<>>, effs |-> <<>>, needD |-> TRUE,
         needN |-> TRUE, redAct |-> TRUE, calls |-> 0, got |-> FALSE, tid |-> 0, ph |-> "-", snapUnsub |-> {}, ansv |-> "-",
         tmo |-> FALSE]

M0 == [received |-> 0, dropped |-> 0, chDropped |-> 0, reduced |-> 0, effIssued |-> 0,
       mwExecuted |-> 0, notified |-> 0, subNotified |-> 0, errors |-> 0]

H0 == [before |-> {}, ret |-> {}, res |-> [a \in Acts |-> "-"], sawOpen |-> {}, recvd |-> <<>>,
       exitRecvd |-> 0, dropped |-> <<>>, red |-> <<>>, vetoed |-> {}, exp |-> <<>>,
       ntf |-> [s \in Subs |-> <<>>], unsubd |-> [s \in Subs |-> 0], regs |-> [s \in Subs |-> 0], unsubRet |-> {},
       late |-> {}, mustSee |-> [s \in Subs |-> {}], stopRet |-> 0, stopBegun |-> FALSE,
       accBeforeStop |-> {}, skipped |-> 0, cleared |-> FALSE, lateReg |-> {},
       reads |-> <<>>, chain |-> [a \in Acts |-> <<>>], after |-> [a \in Acts |-> <<>>],
       supp |-> {}, sent |-> <<>>, fwd |-> [s \in Subs |-> <<>>], got |-> [s \in Subs |-> <<>>],
       registered |-> {}, redAfter |-> [r \in DOMAIN RedScript |-> {}], lateBad |-> {},
       skippedAcc |-> 0, follow |-> {}, effRet |-> 0, mwCalls |-> 0, implRej |-> 0]

Chan0 == [c \in ChanIds |-> [q |-> <<>>, open |-> (c = "D"), alive |-> (c = "D"),
                              rx |-> FALSE, held |-> FALSE]]
Lk0 == [x \in LockIds |-> "-"]
Pc0 == [t \in Threads |-> IF t \in Clients THEN "idle" ELSE IF t = "R" THEN "r.new" ELSE "none"]
Lbl0 == [t |-> "-", ev |-> "init", d |-> 0, notes |-> <<>>, ans |-> "-"]

Init ==
    /\ prog \in Programs
    /\ chan = Chan0
    /\ lk = Lk0
    /\ state = <<>>
    /\ reducers = InitReducers
    /\ mws = InitMws
    /\ subs = <<>>
    /\ pool = "present"
    /\ tasks = <<>>
    /\ pc = Pc0
    /\ loc = [t \in Threads |-> Loc0]
    /\ sig = {}
    /\ m = M0
    /\ h = H0
    /\ lbl = Lbl0

(* a fresh store running program p (used by Trace.tla when a new run starts in the log) *)
ResetTo(p) ==
    /\ prog' = p
    /\ chan' = Chan0
    /\ lk' = Lk0
    /\ state' = <<>>
    /\ reducers' = InitReducers
    /\ mws' = InitMws
    /\ subs' = <<>>
    /\ pool' = "present"
    /\ tasks' = <<>>
    /\ pc' = Pc0
    /\ loc' = [t \in Threads |-> Loc0]
    /\ sig' = {}
    /\ m' = M0
    /\ h' = H0
    /\ lbl' = Lbl0

-----------------------------------------------------------------------------
(* The world record threaded through Micro/Run *)

World(t, ans) ==
    [t |-> t, ans |-> ans, park |-> FALSE, ev |-> "-", d |-> 0, notes |-> <<>>,
     chan |-> chan, lk |-> lk, state |-> state, reducers |-> reducers, mws |-> mws, subs |-> subs,
     pool |-> pool, tasks |-> tasks, pc |-> pc, loc |-> loc, sig |-> sig, m |-> m, h |-> h]

P(w) == w.pc[w.t]
L(w) == w.loc[w.t]
Goto(w, p) == [w EXCEPT !.pc[w.t] = p]
Park(w, p, ev, d) == [w EXCEPT !.pc[w.t] = p, !.park = TRUE, !.ev = ev, !.d = d]
AddNote(w, n) == [w EXCEPT !.notes = Append(@, n)]
CurOp(w) == prog[w.t][L(w).ip]

Rd(w) == IF CbReads THEN w.state ELSE <<>>
Cb(w, what, who, st, a, effs) ==
    [what |-> what, who |-> who, st |-> st, a |-> a, rd |-> Rd(w), effs |-> effs]

(* the end of a public call: the client parks between two calls *)
OpEnd(w, res) ==
    LET o == CurOp(w) IN
    Park([w EXCEPT !.loc[w.t].ip = @ + 1], "idle", "op.end", [op |-> o.op, res |-> res])

MetricsView(w) ==                \* what get_metrics() shows of the modelled counters
    [received |-> w.m.received, dropped |-> w.m.dropped, reduced |-> w.m.reduced,
     effIssued |-> w.m.effIssued, mwExecuted |-> w.m.mwExecuted, notified |-> w.m.notified,
     subNotified |-> w.m.subNotified, errors |-> w.m.errors]

-----------------------------------------------------------------------------
(* SenderChannel::send, channel.rs:54-107 -- one machine for the dispatch     *)
(* queue, channeled subscribers and iterators.  Park points: send.begin        *)
(* (pc "send"), send.full ("sfull"), send.pop ("spop"), send.end ("sent").     *)

StartSend(w, ch, item, ret) ==
    LET w1 == IF ch = "D" THEN [w EXCEPT !.loc[w.t].item = item]
                          ELSE [w EXCEPT !.loc[w.t].sub = item]
    IN Park([w1 EXCEPT !.loc[w.t].ch = ch, !.loc[w.t].ret = ret, !.loc[w.t].sok = TRUE],
            "send", "send.begin", [ch |-> ch, item |-> item])

SendItem(w) == IF L(w).ch = "D" THEN L(w).item ELSE L(w).sub

CountDrop(w, ch, x) ==       \* metrics.action_dropped, channel.rs:69-73 / 89-96
    IF IsAct(ch, x)
    THEN [w EXCEPT !.m.dropped = @ + 1,
                   !.m.chDropped = IF ch = "D" THEN @ ELSE @ + 1,
                   !.h.dropped = IF ch = "D" THEN Append(@, x) ELSE @]
    ELSE w

SentPark(w, ok) ==
    Park([w EXCEPT !.loc[w.t].sok = ok], "sent", "send.end",
         [ch |-> L(w).ch, ok |-> IF ok THEN 1 ELSE 0])

(* the consumer's end of the channel is gone: since the fix of F3 a send then fails at once        *)
(* (only DropOldest senders keep the channel connected, channel.rs pair_with)                     *)
RxGone(c, ch) ==
    /\ "F3" \notin Defects
    /\ ChanPol(ch) # "oldest"
    /\ IF ch = "D" THEN FALSE ELSE IF SubKind[ch] = "iter" THEN ~c[ch].rx ELSE FALSE

MSend(w0) ==                 \* pc "send": leaving send.begin
    LET ch == L(w0).ch  x == SendItem(w0)  q == w0.chan[ch].q  room == Len(q) < ChanCap(ch)
        w == IF ch = "D" /\ x > 0 THEN [w0 EXCEPT !.h.sent = Append(@, x)] ELSE w0 IN
    CASE RxGone(w.chan, ch) -> SentPark(w, FALSE)     \* SendError / TrySendError::Disconnected
      [] ChanPol(ch) = "block" ->          \* channel.rs:56-61 sender.send(item) (guarded by CanLeave)
            SentPark([w EXCEPT !.chan[ch].q = Append(@, x)], TRUE)
      [] ChanPol(ch) = "oldest" ->         \* channel.rs:62-81
            IF room THEN SentPark([w EXCEPT !.chan[ch].q = Append(@, x)], TRUE)
                    ELSE Park(w, "sfull", "send.full", [ch |-> ch])
      [] ChanPol(ch) = "latest" ->         \* channel.rs:82-101
            IF room THEN SentPark([w EXCEPT !.chan[ch].q = Append(@, x)], TRUE)
                    ELSE SentPark(CountDrop(w, ch, x), FALSE)

MPop(w) ==                   \* pc "sfull": receiver.try_recv(), channel.rs:68-73
    LET ch == L(w).ch  q == w.chan[ch].q IN
    IF q # <<>>
    THEN Park(CountDrop([w EXCEPT !.chan[ch].q = Tail(q)], ch, Head(q)),
              "spop", "send.pop", [ch |-> ch, item |-> Head(q)])
    ELSE Park(w, "spop", "send.pop", [ch |-> ch, item |-> NoneOf(ch)])

MTry2(w) ==                  \* pc "spop": second try_send, channel.rs:74-77
    LET ch == L(w).ch IN
    IF Len(w.chan[ch].q) < ChanCap(ch)
    THEN SentPark([w EXCEPT !.chan[ch].q = Append(@, SendItem(w))], TRUE)
    ELSE SentPark(w, FALSE)  \* cannot happen while senders are serialised (Props!C06_RetryFindsRoom)

-----------------------------------------------------------------------------
(* on_unsubscribe of subscriber s, by kind; returns to L.uret                *)

OnUnsub(w, s, uret) ==
    LET w1 == [w EXCEPT !.loc[w.t].us = s, !.loc[w.t].uret = uret,
                        !.h.unsubd[s] = IF SubKind[s] = "chan" THEN @ ELSE @ + 1] IN
    CASE SubKind[s] = "direct" -> Park(w1, "unsub.cb", "cb", Cb(w1, "unsub", s, <<>>, 0, <<>>))
      [] SubKind[s] = "sel"    -> Goto(w1, "unsub.ret")          \* SelectorSubscriber: default no-op
      [] SubKind[s] = "chan"   -> Park(w1, "ctxdrop", "ch.txlock", [ch |-> s])   \* store_impl.rs:704
      [] SubKind[s] = "iter"   -> StartSend(w1, s, ExitOf(s), "itx")             \* iterator.rs:30-35

MCtxDrop(w) ==               \* pc "ctxdrop": clear_resource, store_impl.rs:706-712
    LET s == L(w).us
        w1 == [w EXCEPT !.chan[s].open = FALSE, !.chan[s].alive = FALSE] IN
    IF w.pc[ChName(s)] = "joined" THEN Goto(w1, "unsub.ret")     \* handle already taken
    ELSE Park(w1, "chjoin", "ch.join", [ch |-> s])

MChJoin(w) ==                \* pc "chjoin": h.join(), store_impl.rs:712 (guard: thread exited)
    Goto([w EXCEPT !.pc[ChName(L(w).us)] = "joined"], "unsub.ret")

-----------------------------------------------------------------------------
(* Pool submission: dispatch_thunk / dispatch_task, dispatcher.rs:42-73       *)

SubmitFrom(w, kind, a, src) ==
    IF w.pool = "present"
    THEN LET tid == Len(w.tasks) + 1 IN
         IF tid > MaxTasks THEN Assert(FALSE, "MaxTasks is too small for this instance") ELSE
         AddNote([w EXCEPT !.tasks = Append(@, [kind |-> kind, a |-> a, st |-> "queued", runs |-> 0, src |-> src]),
                           !.pc[WName(tid)] = "w.new", !.loc[WName(tid)].tid = tid],
                 N("submit", tid, <<>>))
    ELSE AddNote([w EXCEPT !.h.skipped = @ + 1,
                           !.h.skippedAcc = IF src \in w.h.accBeforeStop THEN @ + 1 ELSE @],
                 N("skip", 0, <<>>))

Submit(w, kind, a) == SubmitFrom(w, kind, a, 0)

-----------------------------------------------------------------------------
(* Middleware phases, store_impl.rs:297-327 / 376-405 / 446-475               *)

Verdict(mw, ph, a) == MwScript[mw][ph][Kind[a]]
MwDispOf(mwl, l) == IF l.ph = "before_dispatch" THEN MwDisp[mwl[l.i]][Kind[l.a]] ELSE 0
Answers(t) ==
    IF t = "R" /\ pc[t] = "mw.ret"
    THEN LET v == Verdict(mws[loc[t].i], loc[t].ph, loc[t].a) IN IF v = "*" THEN MwVerdicts ELSE {v}
    ELSE {"-"}

MwArgState(w) == IF L(w).ph = "before_reduce" THEN L(w).before ELSE L(w).st
AfterMw(ph) == CASE ph = "before_reduce" -> "red.begin" [] ph = "before_effect" -> "eff.submit"
                 [] ph = "before_dispatch" -> "ntf.snapq"

MMwCheck2(w, ph) ==          \* `if !self.middlewares.lock().unwrap().is_empty()`, then lock for the loop
    IF w.mws = <<>> THEN Goto(w, AfterMw(ph))
    ELSE Goto([w EXCEPT !.lk["mws"] = w.t, !.loc[w.t].ph = ph, !.loc[w.t].i = 1, !.loc[w.t].calls = 0],
              "mw.call")

MMwCheck(w, ph) ==           \* with FineReg: one park point before the middlewares lock of each phase
    IF FineReg THEN Park([w EXCEPT !.loc[w.t].ph = ph], "mwchk", "mw.check", 0) ELSE MMwCheck2(w, ph)

MMwCall(w) ==
    LET i == L(w).i IN
    IF i > Len(w.mws) THEN Goto(w, "mw.end")
    ELSE Park([w EXCEPT !.loc[w.t].calls = @ + 1, !.h.mwCalls = @ + 1], "mw.ret", "cb",
              Cb(w, L(w).ph, w.mws[i], MwArgState(w), L(w).a,
                 IF L(w).ph = "before_effect" THEN L(w).effs ELSE <<>>))

ApplyRemove(effs, how) ==
    CASE how = "none" -> effs [] how = "all" -> <<>>
      [] how = "first" -> IF effs = <<>> THEN effs ELSE Tail(effs)

MMwVerdict(w) ==             \* apply the verdict L.ansv
    LET ph == L(w).ph  i == L(w).i  mw == w.mws[i]
        w1 == IF ph = "before_effect"
              THEN [w EXCEPT !.loc[w.t].effs = ApplyRemove(@, MwRemove[mw][Kind[L(w).a]])]
              ELSE w
        next == [w1 EXCEPT !.loc[w.t].i = i + 1, !.pc[w.t] = "mw.call"] IN
    CASE L(w).ansv = "C" -> next
      [] L(w).ansv = "D" ->
            IF ph = "before_reduce" THEN [next EXCEPT !.loc[w.t].redAct = FALSE]
            ELSE IF ph = "before_dispatch" THEN [next EXCEPT !.loc[w.t].needN = FALSE,
                                                             !.h.supp = @ \cup {L(w).a}]
            ELSE next
      [] L(w).ansv = "B" -> Goto(w1, "mw.end")
      [] L(w).ansv = "E" -> Park(w1, "mw.err", "cb", Cb(w1, "on_error", mw, <<>>, L(w).a, <<>>))

MMwRet(w) ==                 \* the callback is left with answer w.ans; a before_dispatch hook may first use
                             \* the dispatcher it was given (Dispatcher::dispatch on the reducer thread, guard: tx lock free)
    LET a2 == MwDispOf(w.mws, L(w))
        w0 == [w EXCEPT !.loc[w.t].ansv = w.ans] IN
    IF a2 = 0 THEN MMwVerdict(w0)
    ELSE LET w1 == [w0 EXCEPT !.loc[w.t].via = "trait", !.h.before = @ \cup {<<x, a2>> : x \in w.h.ret},
                              !.h.follow = @ \cup {<<L(w).a, a2>>}] IN
         IF w.chan["D"].open
         THEN LET w2 == [w1 EXCEPT !.lk["tx"] = w.t, !.h.sawOpen = @ \cup {a2}] IN
              Park([w2 EXCEPT !.loc[w.t].ch = "D", !.loc[w.t].item = a2, !.loc[w.t].ret = "mwdisp", !.loc[w.t].sok = TRUE],
                   "send", "send.begin", [ch |-> "D", item |-> a2])
         ELSE MMwVerdict([w1 EXCEPT !.h.ret = @ \cup {a2}, !.h.res[a2] = "Err"])

MMwEnd(w) ==
    Goto([w EXCEPT !.lk["mws"] = "-", !.m.mwExecuted = @ + L(w).calls], AfterMw(L(w).ph))

-----------------------------------------------------------------------------
(* The reducer thread, store_impl.rs:141-193                                  *)

StartAction(w, x) ==
    Goto([w EXCEPT !.h.recvd = Append(@, x),
                   !.loc[w.t].a = x, !.loc[w.t].before = w.state, !.loc[w.t].st = w.state,
                   !.loc[w.t].effs = <<>>, !.loc[w.t].needD = TRUE, !.loc[w.t].needN = TRUE,
                   !.loc[w.t].redAct = TRUE], "mwr.check")

MRecv(w) ==                  \* pc "recv": rx.recv() (guard: queue not empty or disconnected)
    LET q == w.chan["D"].q IN
    IF q = <<>>              \* disconnected and drained: leave the loop
    THEN Park(w, "clear", "clear.begin", 0)
    ELSE LET x == Head(q)
             w0 == [w EXCEPT !.chan["D"].q = Tail(q), !.m.received = @ + 1] IN
         IF FineReg
         THEN Park([w0 EXCEPT !.loc[w.t].item = x], "recvd", "loop.recv", [item |-> x])
         ELSE LET w1 == AddNote(w0, N("recv", x, <<>>)) IN
              IF x = EXIT
              THEN Park([w1 EXCEPT !.h.exitRecvd = @ + 1], "clear", "clear.begin", 0)
              ELSE StartAction(w1, x)

MRecvd(w) ==                 \* pc "recvd" (FineReg only)
    LET x == L(w).item IN
    IF x = EXIT THEN Park([w EXCEPT !.h.exitRecvd = @ + 1], "clear", "clear.begin", 0)
    ELSE StartAction(w, x)

MRedBegin(w) ==              \* store_impl.rs:331-334
    IF L(w).redAct
    THEN IF FineReg THEN Park(w, "redb", "red.begin", 0)
         ELSE Goto([w EXCEPT !.lk["reds"] = w.t, !.loc[w.t].i = 1], "red.call")
    ELSE Goto([w EXCEPT !.h.vetoed = @ \cup {L(w).a}], "write")

MRedCall(w) ==
    LET i == L(w).i IN
    IF i > Len(w.reducers) THEN Goto(w, "red.end")
    ELSE Park([w EXCEPT !.sig = IF RedScript[w.reducers[i]][Kind[L(w).a]].op = "G" THEN @ \cup {"in"} ELSE @],
              "red.ret", "cb", Cb(w, "reduce", w.reducers[i], L(w).st, L(w).a, <<>>))

MRedRet(w) ==                \* store_impl.rs:335-351: thread the state, collect the effect, last reducer decides
    LET r == w.reducers[L(w).i]  a == L(w).a  sc == RedScript[r][Kind[a]] IN
    Goto([w EXCEPT !.loc[w.t].st = Append(@, <<r, a>>),
                   !.loc[w.t].effs = IF sc.eff.k = "none" THEN @ ELSE Append(@, sc.eff),
                   !.loc[w.t].needD = (sc.op \in {"D", "G"}),
                   !.h.chain[a] = Append(@, r),
                   !.h.effRet = IF sc.eff.k = "none" THEN @ ELSE @ + 1,
                   !.loc[w.t].i = @ + 1], "red.call")

MRedEnd(w) ==                \* store_impl.rs:356
    Goto([w EXCEPT !.lk["reds"] = "-", !.m.reduced = @ + 1, !.h.red = Append(@, L(w).a)], "write")

MWrite(w) ==                 \* store_impl.rs:157: the state is written back whatever the answer was
    Park([w EXCEPT !.state = L(w).st, !.h.after[L(w).a] = L(w).st], "wrote", "loop.wrote", [st |-> L(w).st])

MWrote(w) ==                 \* do_effect, store_impl.rs:374
    Goto([w EXCEPT !.m.effIssued = @ + Len(L(w).effs)], "mwe.check")

MEffNext(w) ==               \* store_impl.rs:408: one park point before each submission
    IF L(w).effs = <<>> THEN Goto(w, "ntf.begin")
    ELSE Park(w, "eff.spawn", "eff.spawn", [n |-> Len(L(w).effs)])

MEffSpawn(w) ==              \* store_impl.rs:409-428: submit the first remaining effect
    LET e == Head(L(w).effs)
        w1 == IF e.k = "act" THEN [w EXCEPT !.h.follow = @ \cup {<<L(w).a, e.a>>}] ELSE w IN
    Goto([SubmitFrom(w1, e.k, e.a, L(w).a) EXCEPT !.loc[w.t].effs = Tail(@)], "eff.submit")

MNtfBegin(w) ==              \* store_impl.rs:170 `if need_dispatch`, l.443
    IF L(w).needD THEN Goto([w EXCEPT !.m.notified = @ + 1], "mwd.check")
    ELSE Goto(w, "done")

MNtfSnapQ(w) ==              \* store_impl.rs:477
    IF L(w).needN THEN Park(w, "snap", "ntf.snap", 0) ELSE Goto(w, "done")

MSnap(w) ==                  \* store_impl.rs:478 (guard: subscribers lock free)
    Goto([w EXCEPT !.loc[w.t].snap = w.subs, !.loc[w.t].k = 1, !.loc[w.t].snapUnsub = w.h.unsubRet,
                   !.h.exp = Append(@, SubItem(L(w).st, L(w).a))], "ntf.call")

SelVal(st) == Len(SelectSeq(st, LAMBDA p : Kind[p[2]] = 1))    \* the scripted selector

MNtfCall(w) ==               \* store_impl.rs:479-481
    LET k == L(w).k  snap == L(w).snap IN
    IF k > Len(snap) THEN Goto([w EXCEPT !.m.subNotified = @ + Len(snap)], "done")
    ELSE LET s == snap[k]  item == SubItem(L(w).st, L(w).a)
             late == IF s \in w.h.unsubRet THEN {s} ELSE {}
             bad == IF s \in L(w).snapUnsub THEN {s} ELSE {} IN
         CASE SubKind[s] = "direct" ->
                Park([w EXCEPT !.h.ntf[s] = Append(@, item), !.h.late = @ \cup late,
                               !.h.lateBad = @ \cup bad],
                     "ntf.ret", "cb", Cb(w, "notify", s, L(w).st, L(w).a, <<>>))
           [] SubKind[s] = "sel" ->       \* subscriber.rs:107-118: call back iff the selected value changed
                LET v == SelVal(L(w).st)
                    prev == w.h.ntf[s]
                    changed == prev = <<>> \/ prev[Len(prev)].st # v IN
                IF changed
                THEN Park([w EXCEPT !.h.ntf[s] = Append(@, SubItem(v, L(w).a)), !.h.late = @ \cup late,
                                    !.h.lateBad = @ \cup bad],
                          "ntf.ret", "cb", Cb(w, "change", s, <<>>, L(w).a, <<>>) @@ [val |-> v])
                ELSE Goto([w EXCEPT !.loc[w.t].k = k + 1], "ntf.call")
           [] SubKind[s] = "chan" ->      \* ChanneledSubscriber::on_notify, store_impl.rs:723
                Park(w, "chfwd", "chfwd.begin", [ch |-> s])
           [] SubKind[s] = "iter" ->      \* iterator.rs:18-28
                StartSend([w EXCEPT !.h.fwd[s] = Append(@, item)], s, item, "itn")

MChFwd(w) ==                 \* store_impl.rs:724-733: lock the subscriber's tx, forward if it is still there
    LET s == L(w).snap[L(w).k]  item == SubItem(L(w).st, L(w).a) IN
    IF w.chan[s].open
    THEN StartSend([w EXCEPT !.lk[CtxLock(s)] = w.t, !.h.fwd[s] = Append(@, item)], s, item, "fwd")
    ELSE Goto([w EXCEPT !.loc[w.t].k = @ + 1], "ntf.call")

-----------------------------------------------------------------------------
(* Continuations after send.end (pc "sent"), by L.ret                        *)

\* Store::dispatch delegates to StoreImpl::dispatch, which maps every send error to Ok
DispResult(w) == IF L(w).via \in {"impl", "store"} THEN "Ok" ELSE IF L(w).sok THEN "Ok" ELSE "Err"

FinishTask(w, panicked) ==
    LET tid == L(w).tid IN
    Park([w EXCEPT !.tasks[tid].st = "done"], "exited", "task.end",
         [tid |-> tid, panicked |-> IF panicked THEN 1 ELSE 0])

\* the scripted thunk goes on after its dispatch() has returned (and says so): by then the action is in
\* the queue, ahead of anything dispatched from now on (C02)
ThunkAfter(w) ==
    Park(w, "w.after", "cb", [what |-> "after", who |-> WName(L(w).tid), st |-> <<>>, a |-> w.tasks[L(w).tid].a,
                              rd |-> <<>>, effs |-> <<>>])

MSent(w) ==
    LET ret == L(w).ret  a == L(w).a IN
    CASE ret = "disp" ->     \* store_impl.rs:545-547 / dispatcher.rs:28-36: unlock, map the result
            LET res == DispResult(w)
                w1 == [w EXCEPT !.lk["tx"] = "-", !.h.ret = @ \cup {a}, !.h.res[a] = res] IN
            IF w.t \in Clients THEN OpEnd(w1, res)
            ELSE IF w.tasks[L(w).tid].kind = "thunk" THEN ThunkAfter(w1)
            ELSE FinishTask(w1, w.tasks[L(w).tid].kind = "act" /\ res = "Err")   \* .expect(), l.413
      [] ret = "close" ->    \* store_impl.rs:509-510: drop(tx), unlock
            Goto([w EXCEPT !.chan["D"].alive = FALSE, !.lk["tx"] = "-"], "closed")
      [] ret = "fwd" ->      \* store_impl.rs:733: unlock the subscriber's tx
            Goto([w EXCEPT !.lk[CtxLock(L(w).ch)] = "-", !.loc[w.t].k = @ + 1], "ntf.call")
      [] ret = "itn" ->
            Goto([w EXCEPT !.loc[w.t].k = @ + 1], "ntf.call")
      [] ret = "itx" ->
            Goto(w, "unsub.ret")
      [] ret = "mwdisp" ->   \* the middleware's dispatch returns (dispatcher.rs:28-36): unlock, go on with the verdict
            LET a2 == L(w).item IN
            Goto([w EXCEPT !.lk["tx"] = "-", !.h.ret = @ \cup {a2},
                           !.h.res[a2] = IF L(w).sok THEN "Ok" ELSE "Err"], "mw.verdict")

-----------------------------------------------------------------------------
(* Client operations (pc "idle": between two public calls)                   *)

PoolIdleW(w) == /\ w.pc["R"] = "exited"
                /\ \A i \in 1..Len(w.tasks) : w.tasks[i].st = "done"
StopRes(w, now) == IF L(w).tmo \/ now THEN "timeout" ELSE "ok"

MClose(w) ==                 \* store_impl.rs:495-511 (guard: dispatch_tx lock free)
    IF w.chan["D"].open
    THEN StartSend([w EXCEPT !.chan["D"].open = FALSE, !.lk["tx"] = w.t], "D", EXIT, "close")
    ELSE Goto(w, "closed")

MClosed(w) ==                \* close() has returned (the sender lock is free again); stop() goes on separately:
    IF CurOp(w).op = "close" THEN OpEnd(w, "ok")       \* what it finds in the pool slot is a later observation
    ELSE Park(w, "stop.chk", "stop.closed", 0)

MStopChk(w) ==               \* stop(): look at the pool slot
    IF "F2" \in Defects \/ w.pool # "present" THEN Park(w, "stop.pool", "stop.pool", 0)
    ELSE Park(w, "stop.drain", "stop.drain", 0)     \* stop(): wait for the backlog first (fix of F2)

MStopPool(w) ==              \* stop / drop_store, store_impl.rs:519-527: take the pool
    IF w.pool = "present"
    THEN Park(AddNote([w EXCEPT !.pool = "taken", !.loc[w.t].got = TRUE], N("took", 1, <<>>)),
              "join", "stop.join", 0)
    ELSE OpEnd(AddNote(w, N("took", 0, <<>>)), StopRes(w, FALSE))

MUnsubLocked(w, s, cont) ==  \* store_impl.rs:231-238, the subscribers lock is held by w.t
    \* retain() visits the list in order and calls on_unsubscribe for *every* entry that is this
    \* subscriber object: one registered twice is released twice by the first unsubscribe() ("uns.more")
    IF InSeq(w.subs, s)
    THEN OnUnsub([w EXCEPT !.subs = RemoveFirst(@, s), !.loc[w.t].cont = cont, !.loc[w.t].us = s], s, "uns")
    ELSE Goto([w EXCEPT !.loc[w.t].cont = cont], "uns.done")

MIdle(w) ==
    LET o == CurOp(w)  t == w.t IN
    CASE o.op = "dispatch" ->    \* store_impl.rs:541-553, dispatcher.rs:25-40 (guard: tx lock free)
            LET w1 == [w EXCEPT !.loc[t].a = o.a, !.loc[t].via = o.via,
                                !.h.before = @ \cup {<<x, o.a>> : x \in w.h.ret}] IN
            IF w.chan["D"].open
            THEN StartSend([w1 EXCEPT !.lk["tx"] = t, !.h.sawOpen = @ \cup {o.a},
                                      !.h.accBeforeStop = IF w.h.stopBegun THEN @ ELSE @ \cup {o.a}],
                           "D", o.a, "disp")
            ELSE OpEnd([w1 EXCEPT !.m.errors = IF o.via \in {"impl", "store"} THEN @ + 1 ELSE @,
                                  !.h.implRej = IF o.via \in {"impl", "store"} THEN @ + 1 ELSE @,
                                  !.h.ret = @ \cup {o.a}, !.h.res[o.a] = "Err"], "Err")
      [] o.op \in {"close", "stop", "drop_store"} ->
            MClose([w EXCEPT !.loc[t].got = FALSE, !.loc[t].tmo = FALSE,
                             !.h.stopBegun = IF o.op = "close" THEN @ ELSE TRUE])
      [] o.op = "get_state" -> OpEnd([w EXCEPT !.h.reads = Append(@, w.state)], w.state)
      [] o.op = "metrics" -> OpEnd(w, MetricsView(w))
      [] o.op = "add_sub" ->     \* store_impl.rs:225 (guard: subscribers lock free)
            OpEnd([w EXCEPT !.subs = Append(@, o.s),
                            !.h.mustSee[o.s] = Acts \ w.h.sawOpen, !.h.registered = @ \cup {o.s}, !.h.regs[o.s] = @ + 1,
                            !.h.lateReg = IF w.h.cleared THEN @ \cup {o.s} ELSE @], "ok")
      [] o.op = "subscribed" ->  \* subscribed_with: the channel and its delivery thread first - the thread
                                 \* runs from here on, before the subscriber is registered ("sub.reg")
            Park([w EXCEPT !.chan[o.s].open = TRUE, !.chan[o.s].alive = TRUE, !.pc[ChName(o.s)] = "ch.new"],
                 "sub.reg", "sub.spawned", [ch |-> o.s])
      [] o.op = "iter" ->        \* store_impl.rs:564-587
            OpEnd([w EXCEPT !.subs = Append(@, o.s),
                            !.chan[o.s].open = TRUE, !.chan[o.s].alive = TRUE,
                            !.chan[o.s].rx = TRUE, !.chan[o.s].held = TRUE,
                            !.h.mustSee[o.s] = Acts \ w.h.sawOpen, !.h.registered = @ \cup {o.s}, !.h.regs[o.s] = @ + 1,
                            !.h.lateReg = IF w.h.cleared THEN @ \cup {o.s} ELSE @], "ok")
      [] o.op = "unsub" ->       \* (guard: subscribers lock free)
            MUnsubLocked([w EXCEPT !.lk["subs"] = t], o.s, "op")
      [] o.op = "next" ->        \* iterator.rs:77-115
            IF w.chan[o.s].rx
            THEN LET q == w.chan[o.s].q  x == Head(q)        \* (guard: an item is there)
                     w1 == [w EXCEPT !.chan[o.s].q = Tail(q)] IN
                 IF x.a > 0 THEN OpEnd([w1 EXCEPT !.h.got[o.s] = Append(@, x)], x)
                 ELSE Park([w1 EXCEPT !.loc[t].us = o.s], "iter.end", "iter.end", 0)
            ELSE OpEnd(w, NoneOf(o.s))
      [] o.op = "drop_iter" ->   \* iterator.rs:119-125: the receiver goes first, then unsubscribe
            IF w.chan[o.s].held
            THEN Park([w EXCEPT !.chan[o.s].rx = FALSE, !.loc[t].us = o.s], "iter.drop", "iter.drop", 0)
            ELSE OpEnd([w EXCEPT !.chan[o.s].rx = FALSE], "ok")
      [] o.op = "add_reducer" -> OpEnd([w EXCEPT !.reducers = Append(@, o.s),
                                                  !.h.redAfter[o.s] = Acts \ w.h.sawOpen], "ok")  \* (guard: reducers lock free)
      [] o.op = "add_mw" -> OpEnd([w EXCEPT !.mws = Append(@, o.s)], "ok")            \* (guard: middlewares lock free)
      [] o.op = "signal" -> OpEnd([w EXCEPT !.sig = @ \cup {o.s}], "ok")      \* harness only
      [] o.op = "wait" -> OpEnd(w, "ok")                                      \* (guard: the signal is up)
      [] o.op = "await_end" -> OpEnd(w, "ok")                                 \* (guard: the loop has ended)
      [] o.op = "task" -> OpEnd(Submit(w, "task", 0), "ok")                            \* dispatcher.rs:60-73
      [] o.op = "thunk" -> OpEnd(Submit(w, "thunk", o.a), "ok")                        \* dispatcher.rs:42-58

MSubReg(w) ==                \* pc "sub.reg": subscribed_with's add_subscriber (guard: subscribers lock free)
    LET o == CurOp(w) IN
    OpEnd([w EXCEPT !.subs = Append(@, o.s),
                    !.h.mustSee[o.s] = Acts \ w.h.sawOpen, !.h.registered = @ \cup {o.s}, !.h.regs[o.s] = @ + 1,
                    !.h.lateReg = IF w.h.cleared THEN @ \cup {o.s} ELSE @], "ok")

MIterEnd(w) ==               \* iterator.rs:99-107 (guard: subscribers lock free)
    LET s == L(w).us IN
    MUnsubLocked([w EXCEPT !.lk["subs"] = w.t, !.chan[s].held = FALSE], s, "iter")

MIterDrop(w) ==              \* (guard: subscribers lock free)
    LET s == L(w).us IN
    MUnsubLocked([w EXCEPT !.lk["subs"] = w.t, !.chan[s].held = FALSE], s, "op")

MUnsDone(w) ==               \* the unsubscribe closure returns: unlock
    LET w1 == [w EXCEPT !.lk["subs"] = "-"]  o == CurOp(w) IN
    IF L(w).cont = "iter"
    THEN OpEnd([w1 EXCEPT !.chan[L(w).us].rx = FALSE], NoneOf(L(w).us))
    ELSE OpEnd([w1 EXCEPT !.h.unsubRet = IF o.op = "unsub" THEN @ \cup {o.s} ELSE @], "ok")

MJoin(w) ==                  \* shutdown_join_timeout returned: the pool is idle, or (StopTimeouts) the wait gave up
    OpEnd([w EXCEPT !.h.stopRet = @ + 1], StopRes(w, ~PoolIdleW(w)))

-----------------------------------------------------------------------------
(* Workers: one thread name per task                                          *)

MTaskStart(w) ==             \* pc "w.new": the pool runs the job
    LET tid == L(w).tid IN
    Park([w EXCEPT !.tasks[tid].st = "running"], "w.start", "task.start",
         [tid |-> tid, kind |-> IF w.tasks[tid].kind \in {"act", "thunk"} THEN 0 ELSE 1])

WDispatch(w, a) ==           \* dispatcher.rs:25-40 on a worker (guard: tx lock free)
    LET w1 == [w EXCEPT !.loc[w.t].a = a, !.loc[w.t].via = "trait",
                        !.h.before = @ \cup {<<x, a>> : x \in w.h.ret}] IN
    IF w.chan["D"].open
    THEN StartSend([w1 EXCEPT !.lk["tx"] = w.t, !.h.sawOpen = @ \cup {a}], "D", a, "disp")
    ELSE IF w.tasks[L(w).tid].kind = "thunk"
         THEN ThunkAfter([w1 EXCEPT !.h.ret = @ \cup {a}, !.h.res[a] = "Err"])
         ELSE FinishTask([w1 EXCEPT !.h.ret = @ \cup {a}, !.h.res[a] = "Err"], TRUE)

MWStart(w) ==                \* pc "w.start"
    LET tk == w.tasks[L(w).tid] IN
    IF tk.kind = "act" THEN WDispatch(w, tk.a)
    ELSE Park([w EXCEPT !.tasks[L(w).tid].runs = @ + 1], "w.cb", "cb",
              Cb(w, "effect", WName(L(w).tid), <<>>, tk.a, <<>>))

MWCb(w) ==                   \* pc "w.cb": the scripted effect returns
    LET tk == w.tasks[L(w).tid] IN
    CASE tk.kind \in {"task", "fn"} -> FinishTask(w, FALSE)
      [] tk.kind = "panic" -> FinishTask(w, TRUE)
      [] tk.kind = "thunk" -> WDispatch(w, tk.a)

-----------------------------------------------------------------------------
(* Delivery thread of a channeled subscriber, store_impl.rs:649-681           *)

ChSub(t) == CHOOSE s \in Subs : ChName(s) = t

MChWait(w) ==                \* pc "ch.wait": rx.recv() (guard: item there or disconnected)
    LET s == ChSub(w.t)  q == w.chan[s].q IN
    IF q # <<>>
    THEN LET x == Head(q)
             late == IF s \in w.h.unsubRet THEN {s} ELSE {} IN
         Park(AddNote([w EXCEPT !.chan[s].q = Tail(q), !.h.ntf[s] = Append(@, x),
                                !.h.late = @ \cup late], N("chrecv", 1, <<>>)),
              "ch.cb", "cb", Cb(w, "notify", s, x.st, x.a, <<>>))
    ELSE IF "F6" \in Defects
         THEN Park(w, "exited", "chloop.exit", [ch |-> s])
         ELSE Park([w EXCEPT !.h.unsubd[s] = @ + 1], "ch.unsubcb", "cb",
                   Cb(w, "unsub", s, <<>>, 0, <<>>))

-----------------------------------------------------------------------------
(* Micro: one statement-sized piece by park point / internal pc               *)

Micro(w) ==
    LET p == P(w) IN
    CASE p = "idle"      -> MIdle(w)
      [] p = "send"      -> MSend(w)
      [] p = "sfull"     -> MPop(w)
      [] p = "spop"      -> MTry2(w)
      [] p = "sent"      -> MSent(w)
      [] p = "closed"    -> MClosed(w)
      [] p = "stop.chk"  -> MStopChk(w)
      [] p = "stop.drain" -> Park([w EXCEPT !.loc[w.t].tmo = ~PoolIdleW(w)],    \* pool.join_timeout returned
                                  "stop.pool", "stop.pool", 0)                   \* (guard: idle, or gave up)
      [] p = "stop.pool" -> MStopPool(w)
      [] p = "join"      -> MJoin(w)
      [] p = "sub.reg"   -> MSubReg(w)
      [] p = "iter.end"  -> MIterEnd(w)
      [] p = "iter.drop" -> MIterDrop(w)
      [] p = "uns.done"  -> MUnsDone(w)
      [] p = "unsub.cb"  -> Goto(w, "unsub.ret")
      [] p = "uns.more"  -> MUnsubLocked(w, L(w).us, L(w).cont)
      [] p = "unsub.ret" -> IF L(w).uret = "uns" THEN Goto(w, "uns.more")
                            ELSE Goto([w EXCEPT !.loc[w.t].k = @ + 1], "clr.call")
      [] p = "ctxdrop"   -> MCtxDrop(w)
      [] p = "chjoin"    -> MChJoin(w)
      \* reducer thread
      [] p = "r.new"     -> Park(w, "recv", "loop.wait", 0)
      [] p = "recv"      -> MRecv(w)
      [] p = "recvd"     -> MRecvd(w)
      [] p = "redb"      -> Goto([w EXCEPT !.lk["reds"] = w.t, !.loc[w.t].i = 1], "red.call")
      [] p = "mwr.check" -> MMwCheck(w, "before_reduce")
      [] p = "mwe.check" -> MMwCheck(w, "before_effect")
      [] p = "mwd.check" -> MMwCheck(w, "before_dispatch")
      [] p = "mwchk"     -> MMwCheck2(w, L(w).ph)
      [] p = "mw.call"   -> MMwCall(w)
      [] p = "mw.ret"    -> MMwRet(w)
      [] p = "mw.verdict" -> MMwVerdict(w)
      [] p = "mw.err"    -> Goto([w EXCEPT !.loc[w.t].i = @ + 1], "mw.call")
      [] p = "mw.end"    -> MMwEnd(w)
      [] p = "red.begin" -> MRedBegin(w)
      [] p = "red.call"  -> MRedCall(w)
      [] p = "red.ret"   -> MRedRet(w)
      [] p = "red.end"   -> MRedEnd(w)
      [] p = "write"     -> MWrite(w)
      [] p = "wrote"     -> MWrote(w)
      [] p = "eff.submit" -> MEffNext(w)
      [] p = "eff.spawn" -> MEffSpawn(w)
      [] p = "ntf.begin" -> MNtfBegin(w)
      [] p = "ntf.snapq" -> MNtfSnapQ(w)
      [] p = "snap"      -> MSnap(w)
      [] p = "ntf.call"  -> MNtfCall(w)
      [] p = "chfwd"     -> MChFwd(w)
      [] p = "ntf.ret"   -> Goto([w EXCEPT !.loc[w.t].k = @ + 1], "ntf.call")
      [] p = "done"      -> Park(w, "recv", "loop.wait", 0)          \* store_impl.rs:181
      [] p = "clear"     -> Goto([w EXCEPT !.lk["subs"] = w.t, !.loc[w.t].k = 1], "clr.call")  \* l.264
      [] p = "clr.call"  -> IF L(w).k > Len(w.subs)
                            THEN Park([w EXCEPT !.subs = <<>>, !.lk["subs"] = "-", !.h.cleared = TRUE],
                                      "exited", "loop.end", 0)       \* l.269, 193
                            ELSE OnUnsub(w, w.subs[L(w).k], "clr")
      \* workers
      [] p = "w.new"     -> MTaskStart(w)
      [] p = "w.start"   -> MWStart(w)
      [] p = "w.cb"      -> MWCb(w)
      [] p = "w.after"   -> FinishTask(w, FALSE)
      \* delivery threads
      [] p = "ch.new"    -> Park(w, "ch.wait", "chloop.wait", [ch |-> ChSub(w.t)])
      [] p = "ch.wait"   -> MChWait(w)
      [] p = "ch.cb"     -> Park([w EXCEPT !.m.subNotified = @ + 1], "ch.wait", "chloop.wait",
                                 [ch |-> ChSub(w.t)])
      [] p = "ch.unsubcb" -> Park(w, "exited", "chloop.exit", [ch |-> ChSub(w.t)])

RECURSIVE Run(_)
Run(w) == LET w1 == Micro(w) IN IF w1.park THEN w1 ELSE Run(w1)

-----------------------------------------------------------------------------
(* Enabledness: the first blocking operation after each park point            *)

PoolIdle == /\ pc["R"] = "exited"
            /\ \A i \in 1..Len(tasks) : tasks[i].st = "done"

CanLeave(t) ==
    LET p == pc[t]  l == loc[t] IN
    CASE p = "idle" ->
            /\ t \in Clients /\ l.ip <= Len(prog[t])
            /\ LET o == prog[t][l.ip] IN
               CASE o.op \in {"dispatch", "close", "stop", "drop_store"} -> lk["tx"] = "-"
                 [] o.op \in {"add_sub", "iter", "unsub"} -> lk["subs"] = "-"
                 [] o.op = "next" -> chan[o.s].rx => chan[o.s].q # <<>>
                 [] o.op = "wait" -> o.s \in sig
                 [] o.op = "await_end" -> pc["R"] = "exited"      \* harness only: until the reducer loop has ended
                 [] o.op = "add_reducer" -> lk["reds"] = "-"
                 [] o.op = "add_mw" -> lk["mws"] = "-"
                 [] OTHER -> TRUE
      [] p = "send" -> ChanPol(l.ch) = "block" /\ ~RxGone(chan, l.ch) => Len(chan[l.ch].q) < ChanCap(l.ch)
      [] p \in {"join", "stop.drain"} -> PoolIdle \/ StopTimeouts
      [] p \in {"iter.end", "iter.drop", "sub.reg"} -> lk["subs"] = "-"
      [] p = "ctxdrop" -> lk[CtxLock(l.us)] = "-"
      [] p = "chjoin" -> pc[ChName(l.us)] = "exited"
      [] p = "red.ret" -> RedScript[reducers[l.i]][Kind[l.a]].op = "G" => "go" \in sig
      [] p = "recv" -> chan["D"].q # <<>> \/ ~chan["D"].alive
      [] p = "snap" -> lk["subs"] = "-"
      [] p = "chfwd" -> lk[CtxLock(l.snap[l.k])] = "-"
      [] p = "clear" -> lk["subs"] = "-"
      [] p = "mw.ret" -> MwDispOf(mws, l) # 0 => lk["tx"] = "-"
      [] p = "w.start" -> tasks[l.tid].kind = "act" => lk["tx"] = "-"
      [] p = "w.cb" -> tasks[l.tid].kind = "thunk" => lk["tx"] = "-"
      [] p = "ch.wait" -> LET s == ChSub(t) IN chan[s].q # <<>> \/ ~chan[s].alive
      [] p \in {"none", "exited", "joined"} -> FALSE
      [] OTHER -> TRUE

Step(t) ==
    /\ CanLeave(t)
    /\ \E ans \in Answers(t) :
        LET w == Run(World(t, ans)) IN
        /\ chan' = w.chan /\ lk' = w.lk /\ state' = w.state /\ reducers' = w.reducers
        /\ mws' = w.mws /\ subs' = w.subs /\ pool' = w.pool /\ tasks' = w.tasks
        /\ pc' = w.pc /\ loc' = w.loc /\ sig' = w.sig /\ m' = w.m /\ h' = w.h
        /\ lbl' = [t |-> t, ev |-> w.ev, d |-> w.d, notes |-> w.notes, ans |-> ans]
        /\ UNCHANGED prog

Next == \E t \in Threads : Step(t)

Spec == Init /\ [][Next]_vars /\ \A t \in Threads : WF_vars(Step(t))

(* all client programs finished and every thread that exists has ended *)
Finished(t) == IF t \in Clients THEN pc[t] = "idle" /\ loc[t].ip > Len(prog[t])
               ELSE pc[t] \in {"none", "exited", "joined"}
AllDone == \A t \in Threads : Finished(t)
ClientsDone == \A t \in Clients : Finished(t)
=============================================================================
