------------------------------- MODULE Props -------------------------------
(***************************************************************************)
(* The listed properties C01..C15, C18 as invariants / action properties   *)
(* of RsStore.  `h` is the history the specification keeps for them.       *)
(* Names are <property id>_<aspect>; "strict" variants are the statement   *)
(* as written, the others are the statement modulo a recorded finding.     *)
(***************************************************************************)
EXTENDS RsStore

Pos(seq, x) == CHOOSE i \in 1..Len(seq) : seq[i] = x
NoDup(seq) == \A i, j \in 1..Len(seq) : seq[i] = seq[j] => i = j
IsPrefixOf(s, t) == Len(s) <= Len(t) /\ \A i \in 1..Len(s) : s[i] = t[i]
RECURSIVE Dedup(_)
Dedup(s) == IF Len(s) <= 1 THEN s ELSE IF s[1] = s[2] THEN Dedup(Tail(s)) ELSE <<s[1]>> \o Dedup(Tail(s))
IsSegment(s, t) == \E i \in 0..Len(t) : i + Len(s) <= Len(t) /\ \A k \in 1..Len(s) : s[k] = t[i + k]
RECURSIVE IsSubseq(_, _)
IsSubseq(s, t) == IF s = <<>> THEN TRUE
                  ELSE IF t = <<>> THEN FALSE
                  ELSE IF Head(s) = Head(t) THEN IsSubseq(Tail(s), Tail(t))
                  ELSE IsSubseq(s, Tail(t))
RECURSIVE Flat(_)
Flat(ss) == IF ss = <<>> THEN <<>> ELSE Head(ss) \o Flat(Tail(ss))
Last(s) == s[Len(s)]

RDone == pc["R"] = "exited"
Quiet == AllDone /\ RDone            \* everything finished and the reducer loop has ended
ActsIn(items) == {items[i].a : i \in 1..Len(items)}

-----------------------------------------------------------------------------
(* C01: the state is the sequential fold of the reducer chain *)
Contribution(a) == [i \in 1..Len(h.chain[a]) |-> <<h.chain[a][i], a>>]
C01_Fold == state = Flat([i \in 1..Len(h.red) |-> Contribution(h.red[i])])
C01_ExactlyOnce ==
    /\ NoDup(h.recvd) /\ NoDup(h.red)
    /\ SetOfSeq(h.red) \cap h.vetoed = {}
    /\ RDone /\ Pol = "block" =>
         \A a \in Acts : h.res[a] = "Ok" => InSeq(h.recvd, a) /\ (InSeq(h.red, a) \/ a \in h.vetoed)
C01_Threaded ==      \* each action starts from the state left by the previously reduced one
    \A i \in 1..Len(h.red) : h.after[h.red[i]] # <<>> \/ h.chain[h.red[i]] = <<>> =>
        IsPrefixOf(h.after[h.red[i]], state) \/ h.after[h.red[i]] = <<>>
C01_FinalAfterStop == [][RDone => state' = state]_vars

(* C02: per-thread FIFO and real-time order of survivors *)
C02_Order == \A p \in h.before :
    InSeq(h.recvd, p[1]) /\ InSeq(h.recvd, p[2]) => Pos(h.recvd, p[1]) < Pos(h.recvd, p[2])
C02_ReduceOrder == h.red = SelectSeq(h.recvd, LAMBDA a : a \notin h.vetoed /\ InSeq(h.red, a))

(* C03: direct subscribers *)
AllDispatch(a) == h.chain[a] # <<>> /\ \A i \in 1..Len(h.chain[a]) : RedScript[h.chain[a][i]][Kind[a]].op \in {"D", "G"}
AllKeep(a) == h.chain[a] # <<>> /\ \A i \in 1..Len(h.chain[a]) : RedScript[h.chain[a][i]][Kind[a]].op = "K"
C03_OnlyDispatch == \A i \in 1..Len(h.exp) : ~AllKeep(h.exp[i].a) /\ h.exp[i].a \notin h.supp
C03_EveryDispatch == RDone => \A a \in SetOfSeq(h.red) : AllDispatch(a) /\ a \notin h.supp => a \in ActsIn(h.exp)
C03_StateAndOrder ==
    /\ \A i \in 1..Len(h.exp) : h.exp[i].st = h.after[h.exp[i].a]
    /\ [i \in 1..Len(h.exp) |-> h.exp[i].a] = SelectSeq(h.recvd, LAMBDA a : a \in ActsIn(h.exp))
    /\ NoDup([i \in 1..Len(h.exp) |-> h.exp[i].a])
DirectSubs == {s \in Subs : SubKind[s] = "direct"}
C03_Stream == \A s \in DirectSubs : IsSegment(h.ntf[s], h.exp)

(* C04: stop() is a barrier and is final *)
ChanSubsOf(k) == {s \in Subs : SubKind[s] = k}
C04_Barrier == h.stopRet > 0 =>
    /\ RDone
    /\ \A i \in 1..Len(chan["D"].q) : chan["D"].q[i] <= 0
    /\ Pol = "block" => \A a \in Acts : h.res[a] = "Ok" => InSeq(h.recvd, a) /\ (InSeq(h.red, a) \/ a \in h.vetoed)
    /\ \A s \in ChanSubsOf("chan") : s \in h.registered /\ s \notin h.lateReg =>
           chan[s].q = <<>> /\ pc[ChName(s)] \in {"joined"}
    /\ ~chan["D"].open
C04_Final == [][h.stopRet > 0 =>
                  /\ state' = state
                  /\ (lbl'.ev = "cb" => lbl'.d.what = "unsub")
                  /\ h'.recvd = h.recvd]_vars
C04_ErrNeverReduced == \A a \in Acts : h.res[a] = "Err" => ~InSeq(h.recvd, a)

(* C05: BlockOnFull is lossless and bounded *)
C05_Bound == \A c \in ChanIds : Len(chan[c].q) <= ChanCap(c)
C05_NoLoss == Pol = "block" => h.dropped = <<>> /\ m.dropped = m.chDropped

(* C06: drop policies *)
C06_NeverBlocks == Pol # "block" =>
    \A t \in Threads : pc[t] \in {"send", "sfull", "spop", "sent"} /\ loc[t].ch = "D" => CanLeave(t)
C06_RetryFindsRoom ==    \* after DropOldest's pop the retry always finds room: there is one sender per channel at a time
    \A t \in Threads : pc[t] = "spop" => Len(chan[loc[t].ch].q) < ChanCap(loc[t].ch)
C06_Conservation ==
    /\ NoDup(h.recvd) /\ NoDup(h.dropped)
    /\ SetOfSeq(h.recvd) \cap SetOfSeq(h.dropped) = {}
    /\ m.dropped - m.chDropped = Len(h.dropped)
    /\ Quiet => h.sawOpen = SetOfSeq(h.recvd) \cup SetOfSeq(h.dropped)
C06_ErrIffDropped == Quiet /\ Pol = "latest" =>
    \A a \in h.sawOpen : (h.res[a] = "Err") => InSeq(h.dropped, a)
C06_Exact ==         \* nothing taken by the reducer yet: the queue holds exactly what the policy names
    m.received = 0 /\ chan["D"].open /\ lk["tx"] = "-" /\ Len(h.sent) > Cap =>
        CASE Pol = "oldest" -> chan["D"].q = SubSeq(h.sent, Len(h.sent) - Cap + 1, Len(h.sent))
          [] Pol = "latest" -> chan["D"].q = SubSeq(h.sent, 1, Cap)
          [] OTHER -> TRUE

(* C07: one action at a time, in one reducer context *)
C07_ReducerContext ==
    lbl.ev = "cb" /\ lbl.d.what \in {"reduce", "before_reduce", "before_effect", "before_dispatch", "on_error"}
        => lbl.t = "R"
C07_DirectOnReducer ==
    lbl.ev = "cb" /\ lbl.d.what \in {"notify", "change"} /\ SubKind[lbl.d.who] \in {"direct", "sel"} => lbl.t = "R"
C07_Registered == \A r \in DOMAIN RedScript : \A a \in h.redAfter[r] :
    InSeq(h.red, a) => InSeq(h.chain[a], r)
C07_InitRegistered == \A a \in SetOfSeq(h.red) : \A i \in 1..Len(InitReducers) : h.chain[a][i] = InitReducers[i]

(* C08: get_state *)
C08_Monotone == [][IsPrefixOf(state, state')]_vars
C08_Published == CbReads /\ lbl.ev = "cb" /\ lbl.d.what = "notify" => IsPrefixOf(lbl.d.st, lbl.d.rd)
C08_Valid == state = <<>> \/ \E a \in Acts : state = h.after[a]

(* C09: subscription lifecycle *)
C09_Notified == RDone => \A s \in DirectSubs : s \in h.registered /\ s \notin h.unsubRet /\ h.unsubd[s] <= 1 =>
    \A i \in 1..Len(h.exp) : h.exp[i].a \in h.mustSee[s] => \E k \in 1..Len(h.ntf[s]) : h.ntf[s][k] = h.exp[i]
C09_SilentAfter_strict == h.late = {}
C09_SilentAfter == h.lateBad = {}      \* modulo F5: only the notification in flight may still arrive
\* once per registration (h.regs[s] = 1 unless the same object is registered again)
C09_ReleasedAtMostOnce == \A s \in Subs : h.unsubd[s] <= h.regs[s]
C09_Released == Quiet => \A s \in h.registered : s \notin h.lateReg /\ SubKind[s] # "sel" => h.unsubd[s] = h.regs[s]
\* a subscriber registered k times is called k times for an action, and not at all after unsubscribe()
C09_DupStream == \A s \in DirectSubs : IsSegment(Dedup(h.ntf[s]), h.exp)

(* C10: channeled subscribers *)
C10_OwnThread == lbl.ev = "cb" /\ lbl.d.what \in {"notify", "unsub"} /\ SubKind[lbl.d.who] = "chan" => lbl.t = ChName(lbl.d.who)
C10_Stream == \A s \in ChanSubsOf("chan") :
    /\ IsSegment(h.fwd[s], h.exp)
    /\ IF SubPol[s] = "block" THEN IsPrefixOf(h.ntf[s], h.fwd[s]) ELSE IsSubseq(h.ntf[s], h.fwd[s])
C10_Flush == \A s \in ChanSubsOf("chan") :
    (s \in h.unsubRet \/ (h.stopRet > 0 /\ s \in h.registered /\ s \notin h.lateReg)) =>
        /\ chan[s].q = <<>> /\ pc[ChName(s)] = "joined"
        /\ SubPol[s] = "block" => h.ntf[s] = h.fwd[s]
        /\ SubPol[s] = "oldest" /\ h.fwd[s] # <<>> => Last(h.fwd[s]) = Last(h.ntf[s])
C10_NoStall == \A s \in ChanSubsOf("chan") : SubPol[s] # "block" =>
    (pc["R"] \in {"send", "sfull", "spop", "sent"} /\ loc["R"].ch = s => CanLeave("R"))

(* C11: effects *)
C11_AtMostOnce == \A i \in 1..Len(tasks) : tasks[i].runs <= 1
C11_Once_strict == h.skippedAcc = 0
C11_Once == Quiet => \A i \in 1..Len(tasks) : tasks[i].kind # "act" => tasks[i].runs = 1
C11_Worker == lbl.ev = "cb" /\ lbl.d.what = "effect" => lbl.t \in Workers /\ lbl.t = lbl.d.who
C11_Followup == \A p \in h.follow : InSeq(h.recvd, p[2]) => InSeq(h.recvd, p[1]) /\ Pos(h.recvd, p[1]) < Pos(h.recvd, p[2])
C11_QuietAfterStop == [][h.stopRet > 0 => (lbl'.ev = "cb" => lbl'.d.what # "effect")]_vars

(* C12: middleware verdicts -- consequences visible in the history *)
C12_Veto == \A a \in h.vetoed : h.chain[a] = <<>> /\ \A i \in 1..Len(state) : state[i][2] # a
C12_Suppress == \A a \in h.supp : a \notin ActsIn(h.exp)

(* C13: no deadlock: a state without an enabled step is a finished state *)
Stuck == \A t \in Threads : ~CanLeave(t)
LateIter == \E s \in h.lateReg : SubKind[s] = "iter"          \* iter() on a store that has already shut down
C13_NoDeadlock == Stuck /\ ~LateIter => ClientsDone      \* every public call has returned
(* (a delivery thread of a subscription made after the store shut down is never joined: it waits    *)
(* for ever, but no call waits for it -- late registration, outside the property's quantifier)     *)

(* C14: state iterator *)
C14_Stream == \A s \in ChanSubsOf("iter") :
    /\ IsSegment(h.fwd[s], h.exp)
    /\ IsPrefixOf(h.got[s], h.fwd[s])
    /\ \A i \in 1..Len(h.exp) : RDone /\ s \notin h.lateReg /\ chan[s].held /\ h.exp[i].a \in h.mustSee[s] =>
          \E k \in 1..Len(h.fwd[s]) : h.fwd[s][k] = h.exp[i]
C14_Detached == \A s \in ChanSubsOf("iter") : s \in h.registered /\ ~chan[s].held /\ lk["subs"] = "-" => ~InSeq(subs, s)

(* C16: selector subscription through a running store: first notification, then changes only *)
SelSubs == {s \in Subs : SubKind[s] = "sel"}
C16_Store == \A s \in SelSubs :
    /\ \A i \in 1..(Len(h.ntf[s]) - 1) : h.ntf[s][i].st # h.ntf[s][i + 1].st
    /\ \A i \in 1..Len(h.ntf[s]) : \E k \in 1..Len(h.exp) : h.exp[k].a = h.ntf[s][i].a /\ SelVal(h.exp[k].st) = h.ntf[s][i].st

(* Liveness, checked under Spec (weak fairness of every thread's step): every public call returns, *)
(* and a sender that waits for room gets it (C05 "resumes as soon as the reducer makes room",     *)
(* C13 "every call returns", C04/C10 "flush")                                                     *)
Live_ClientsDone == <>ClientsDone
Live_SendResumes == \A t \in Clients : (pc[t] = "send") ~> (pc[t] # "send")
Live_StopReturns == \A t \in Clients : (pc[t] \in {"join", "stop.drain"}) ~> (pc[t] \notin {"join", "stop.drain"})

(* C18: metrics *)
C18_Monotone == [][\A k \in DOMAIN m : m'[k] >= m[k]]_vars
C18_Balance == Quiet =>
    /\ (m.received - h.exitRecvd) + (m.dropped - m.chDropped) = Cardinality(h.sawOpen)
    /\ m.reduced = (m.received - h.exitRecvd) - Cardinality(h.vetoed)
    /\ m.reduced = Len(h.red)
    /\ m.effIssued = h.effRet          \* effects issued = effects the reducers returned
    /\ m.mwExecuted = h.mwCalls        \* middleware executions = hooks actually invoked
    /\ m.errors = h.implRej            \* errors = dispatches rejected by the store's own dispatch method
=============================================================================
