------------------------------ MODULE TwoStores ------------------------------
(***************************************************************************)
(* Two stores in one process (C19): two copies of the RsStore variables,   *)
(* a step is a step of one of them.  That the composition satisfies each   *)
(* store's own properties and that a step of one store leaves the other's  *)
(* variables alone is true by construction of this module -- it says that  *)
(* the *specification* has no state shared between stores.  That the       *)
(* *code* has none is decided by conformance: executions with two stores   *)
(* are split by store identity and each half is validated against RsStore  *)
(* on its own (tools/seqprops.py, c19).                                    *)
(***************************************************************************)
EXTENDS Integers, Sequences, FiniteSets, TLC

CONSTANTS Clients, Programs, Acts, Kind, Cap, Pol, InitReducers, InitMws, RedScript, MwScript, MwVerdicts,
          MwRemove, MwDisp, Subs, SubKind, SubCap, SubPol, MaxTasks, CbReads, FineReg, StopTimeouts, Defects

VARIABLES progA, chanA, lkA, stateA, reducersA, mwsA, subsA, poolA, tasksA, pcA, locA, sigA, mA, hA, lblA,
          progB, chanB, lkB, stateB, reducersB, mwsB, subsB, poolB, tasksB, pcB, locB, sigB, mB, hB, lblB

varsA == <<progA, chanA, lkA, stateA, reducersA, mwsA, subsA, poolA, tasksA, pcA, locA, sigA, mA, hA, lblA>>
varsB == <<progB, chanB, lkB, stateB, reducersB, mwsB, subsB, poolB, tasksB, pcB, locB, sigB, mB, hB, lblB>>

A == INSTANCE Props WITH prog <- progA, chan <- chanA, lk <- lkA, state <- stateA, reducers <- reducersA, mws <- mwsA, subs <- subsA, pool <- poolA, tasks <- tasksA, pc <- pcA, loc <- locA, sig <- sigA, m <- mA, h <- hA, lbl <- lblA
B == INSTANCE Props WITH prog <- progB, chan <- chanB, lk <- lkB, state <- stateB, reducers <- reducersB, mws <- mwsB, subs <- subsB, pool <- poolB, tasks <- tasksB, pc <- pcB, loc <- locB, sig <- sigB, m <- mB, h <- hB, lbl <- lblB

Init2 == A!Init /\ B!Init
Next2 == \/ A!Next /\ UNCHANGED varsB
         \/ B!Next /\ UNCHANGED varsA
Spec2 == Init2 /\ [][Next2]_<<varsA, varsB>>

(* each store, seen alone, behaves as a store *)
RefinesA == A!Init /\ [][A!Next]_varsA
RefinesB == B!Init /\ [][B!Next]_varsB
(* per-store properties hold in the composition *)
InvA == A!C01_Fold /\ A!C05_Bound /\ A!C06_Conservation /\ A!C04_Barrier /\ A!C18_Balance
InvB == B!C01_Fold /\ B!C05_Bound /\ B!C06_Conservation /\ B!C04_Barrier /\ B!C18_Balance
=============================================================================
