------------------------------ MODULE Selector ------------------------------
(***************************************************************************)
(* SelectorSubscriber (subscriber.rs:60-119) as a sequential machine: it   *)
(* remembers the value it delivered last and calls on_change(value,action) *)
(* for the first notification and whenever the selected value differs.     *)
(* Every input sequence over Vals up to MaxLen is enumerated; at the end   *)
(* of each sequence TLC prints it with the expected callback sequence, and *)
(* the harness feeds it to a real SelectorSubscriber (C16).                *)
(***************************************************************************)
EXTENDS Integers, Sequences, TLC, Json

CONSTANTS Vals, MaxLen

VARIABLES last,   \* the value delivered last, 0 = none yet      (last_value, subscriber.rs:72)
          inp,    \* the selected values of the notifications so far; the k-th notification carries action k
          out     \* the callbacks so far: <<value, action>>

vars == <<last, inp, out>>

Init == last = 0 /\ inp = <<>> /\ out = <<>>

Notify(v) ==                 \* on_notify, subscriber.rs:107-118
    /\ Len(inp) < MaxLen
    /\ inp' = Append(inp, v)
    /\ IF last # v
       THEN out' = Append(out, <<v, Len(inp) + 1>>) /\ last' = v
       ELSE UNCHANGED <<out, last>>

Next == \E v \in Vals : Notify(v)
Spec == Init /\ [][Next]_vars

(* C16: the delivered values are the selected values with consecutive duplicates removed, each with *)
(* the action that brought the change                                                               *)
RECURSIVE Dedupe(_, _, _)
Dedupe(s, k, prev) ==
    IF k > Len(s) THEN <<>>
    ELSE IF s[k] # prev THEN <<<<s[k], k>>>> \o Dedupe(s, k + 1, s[k]) ELSE Dedupe(s, k + 1, prev)
C16_Dedup == out = Dedupe(inp, 1, 0)
C16_FirstAlways == inp # <<>> => out # <<>> /\ out[1] = <<inp[1], 1>>
C16_NoRepeat == \A i \in 1..(Len(out) - 1) : out[i][1] # out[i + 1][1]

EmitEnd == Len(inp) = MaxLen => PrintT(<<"SEQ", ToJson([inp |-> inp, out |-> out])>>)
=============================================================================
