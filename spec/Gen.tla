-------------------------------- MODULE Gen --------------------------------
(* Emits the state graph of RsStore edge by edge: identity of a state = two   *)
(* 32-bit TLC fingerprints of its variables, label = lbl of the target state. *)
EXTENDS Props, TLCExt, Json

Id(v) == <<TLCFP(v), TLCFP(<<"salt", v>>)>>
CurVars == <<prog, chan, lk, state, reducers, mws, subs, pool, tasks, pc, loc, sig, m, h, lbl>>
NxtVars == <<prog', chan', lk', state', reducers', mws', subs', pool', tasks', pc', loc', sig', m', h', lbl'>>

EmitEdge == PrintT(<<"E", Id(CurVars), Id(NxtVars), (IF AllDone' THEN 1 ELSE 0) + (IF ClientsDone' THEN 2 ELSE 0), ToJson(lbl')>>)
EmitInit == (lbl.ev = "init") => PrintT(<<"I", Id(CurVars), ToJson(prog)>>)
=============================================================================
