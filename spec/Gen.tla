-------------------------------- MODULE Gen --------------------------------
(* Emits the state graph of RsStore edge by edge: identity of a state = two   *)
(* 32-bit TLC fingerprints of its variables, label = lbl of the target state. *)
EXTENDS Props, TLCExt, Json

Id(v) == <<TLCFP(v), TLCFP(<<"salt", v>>)>>
CurVars == <<prog, chan, lk, state, reducers, mws, subs, pool, tasks, pc, loc, sig, m, h, lbl>>
NxtVars == <<prog', chan', lk', state', reducers', mws', subs', pool', tasks', pc', loc', sig', m', h', lbl'>>

(* threads of the target state that are parked in front of an operation that cannot complete now  *)
(* (full queue, held lock, join of something still running): used for the blocked probes          *)
BlockedNext == {t \in Threads : pc'[t] \notin {"none", "exited", "joined", "recv", "ch.wait"}
                                /\ ~(t \in Clients /\ pc'[t] = "idle" /\ loc'[t].ip > Len(prog'[t]))
                                /\ ~CanLeave(t)'}
BlockedInfo == [t \in BlockedNext |->
                  IF pc'[t] = "idle" THEN "op:" \o prog'[t][loc'[t].ip].op \o
                                                (IF prog'[t][loc'[t].ip].op = "dispatch" THEN "/" \o prog'[t][loc'[t].ip].via ELSE "")
                  ELSE IF pc'[t] = "send" THEN "send:" \o loc'[t].ch ELSE pc'[t]]
EmitEdge == PrintT(<<"E", Id(CurVars), Id(NxtVars), (IF AllDone' THEN 1 ELSE 0) + (IF ClientsDone' THEN 2 ELSE 0),
                     ToJson(lbl'), ToJson(BlockedInfo)>>)
EmitInit == (lbl.ev = "init") => PrintT(<<"I", Id(CurVars), ToJson(prog)>>)
=============================================================================
