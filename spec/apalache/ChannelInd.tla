----------------------------- MODULE ChannelInd -----------------------------
(***************************************************************************)
(* The three backpressure policies of SenderChannel::send (channel.rs) for *)
(* an ARBITRARY capacity, with the only facts RsStore.tla relies on about  *)
(* them: senders are serialised (the dispatch lock is held across the      *)
(* send: `busy`), there is one receiver, items are only counted.           *)
(* IndInv is an inductive invariant (Init => IndInv, IndInv /\ Next =>     *)
(* IndInv'), checked with Apalache for every Cap >= 1; it contains         *)
(*   - the bound  0 <= len <= Cap                              (C05)       *)
(*   - conservation  accepted = received + dropped + len       (C05, C06)  *)
(*   - BlockOnFull never drops                                 (C05)       *)
(*   - after DropOldest's pop the retry always finds room      (C06)       *)
(* These are the same facts TLC checks on RsStore for Cap <= 3.            *)
(***************************************************************************)
EXTENDS Integers

CONSTANTS
    \* @type: Int;
    Cap,
    \* @type: Str;
    Pol

VARIABLES
    \* @type: Int;
    len,        \* items in the queue
    \* @type: Int;
    accepted,   \* sends that put (or will have put) an item in: successful try_send / send
    \* @type: Int;
    dropped,    \* items discarded by a drop policy
    \* @type: Int;
    received,   \* items taken by the receiver
    \* @type: Str;
    pc          \* the one sender inside send(): "idle" | "full" (oldest: first try failed) | "popped"

ConstInit == Cap \in Int /\ Cap >= 1 /\ Pol \in {"block", "oldest", "latest"}

Init == len = 0 /\ accepted = 0 /\ dropped = 0 /\ received = 0 /\ pc = "idle"

SendBlock ==        \* channel.rs:56-61, waits while the queue is full
    /\ Pol = "block" /\ pc = "idle" /\ len < Cap
    /\ len' = len + 1 /\ accepted' = accepted + 1
    /\ UNCHANGED <<dropped, received, pc>>

TrySendLatest ==    \* channel.rs:82-101
    /\ Pol = "latest" /\ pc = "idle"
    /\ IF len < Cap
       THEN len' = len + 1 /\ accepted' = accepted + 1 /\ UNCHANGED dropped
       ELSE dropped' = dropped + 1 /\ accepted' = accepted + 1 /\ UNCHANGED len   \* the new item is the one dropped
    /\ UNCHANGED <<received, pc>>

TrySendOldest ==    \* channel.rs:63
    /\ Pol = "oldest" /\ pc = "idle"
    /\ IF len < Cap
       THEN len' = len + 1 /\ accepted' = accepted + 1 /\ UNCHANGED pc
       ELSE pc' = "full" /\ UNCHANGED <<len, accepted>>
    /\ UNCHANGED <<dropped, received>>

PopOldest ==        \* channel.rs:68-73: the receiver may have emptied the queue meanwhile
    /\ pc = "full"
    /\ IF len > 0 THEN len' = len - 1 /\ dropped' = dropped + 1 ELSE UNCHANGED <<len, dropped>>
    /\ pc' = "popped"
    /\ UNCHANGED <<accepted, received>>

RetryOldest ==      \* channel.rs:74-77: cannot be full, no other sender is inside send()
    /\ pc = "popped"
    /\ len < Cap
    /\ len' = len + 1 /\ accepted' = accepted + 1 /\ pc' = "idle"
    /\ UNCHANGED <<dropped, received>>

Recv ==
    /\ len > 0
    /\ len' = len - 1 /\ received' = received + 1
    /\ UNCHANGED <<accepted, dropped, pc>>

Stutter == UNCHANGED <<len, accepted, dropped, received, pc>>

Next == SendBlock \/ TrySendLatest \/ TrySendOldest \/ PopOldest \/ RetryOldest \/ Recv \/ Stutter

IndInv ==
    /\ Cap >= 1 /\ Pol \in {"block", "oldest", "latest"}
    /\ pc \in {"idle", "full", "popped"}
    /\ len >= 0 /\ len <= Cap
    /\ accepted >= 0 /\ dropped >= 0 /\ received >= 0
    /\ accepted = received + dropped + len
    /\ (Pol = "block" => dropped = 0)
    /\ (Pol # "oldest" => pc = "idle")
    /\ (pc = "popped" => len < Cap)              \* the retry always finds room

(* the states Apalache starts the induction step from: any values satisfying IndInv *)
IndInit ==
    /\ len \in Int /\ accepted \in Int /\ dropped \in Int /\ received \in Int
    /\ pc \in {"idle", "full", "popped"}
    /\ IndInv

(* the retry step is never disabled: DropOldest never blocks and never loses the new item *)
RetryEnabled == pc = "popped" => len < Cap
=============================================================================
