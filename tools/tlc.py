"""Running TLC: model checking with result parsing, and state-graph extraction through a FIFO."""
import json
import os
import re
import shutil
import subprocess
import tempfile
import threading
import time

import tlaval

SPEC_DIR = os.path.join(os.path.dirname(os.path.dirname(os.path.abspath(__file__))), "spec")
WORK = os.path.join(os.path.dirname(os.path.dirname(os.path.abspath(__file__))), "work")


class TlcResult:
    def __init__(self):
        self.ok = False
        self.generated = 0
        self.distinct = 0
        self.depth = 0
        self.violation = None      # ("invariant", name) | ("deadlock", None) | ("property", name) | ("error", text)
        self.trace = None          # list of states (dict) when a counterexample was dumped
        self.wall = 0.0
        self.out = ""
        self.timeout = False
        self.coverage = {}


def workdir(tag):
    os.makedirs(WORK, exist_ok=True)
    d = tempfile.mkdtemp(prefix=tag + "_", dir=WORK)
    for f in os.listdir(SPEC_DIR):
        if f.endswith(".tla"):
            shutil.copy(os.path.join(SPEC_DIR, f), d)
    return d


def run(d, module, cfg_text, workers=8, timeout=600, extra=(), dump_trace=True, heap="6g", env=None,
        keep_java_opts=False):
    """model-check module.tla (already in d) with the given cfg text"""
    with open(os.path.join(d, module + ".cfg"), "w") as f:
        f.write(cfg_text)
    trace_file = os.path.join(d, module + "_trace.json")
    cmd = ["java", "-XX:+UseParallelGC", "-Xmx" + heap, "-Xss64m", "-cp", "/opt/veriftools/tla/tla2tools.jar:" +
           "/opt/veriftools/tla/CommunityModules-deps.jar", "tlc2.TLC"]
    cmd = ["tlc"]
    cmd += ["-workers", str(workers), "-metadir", os.path.join(d, "meta_" + module), "-cleanup",
            "-noGenerateSpecTE", "-config", module + ".cfg"]
    if dump_trace:
        cmd += ["-dumpTrace", "json", trace_file]
    cmd += list(extra) + [module + ".tla"]
    r = TlcResult()
    t0 = time.time()
    e = dict(os.environ)
    e["JAVA_TOOL_OPTIONS"] = "-XX:+UseParallelGC -Xss64m -Xmx%s -Xms%s" % (heap, heap)
    if env:
        jo = e["JAVA_TOOL_OPTIONS"]
        e.update(env)
        if not keep_java_opts:
            e["JAVA_TOOL_OPTIONS"] = jo
    try:
        p = subprocess.run(cmd, cwd=d, stdout=subprocess.PIPE, stderr=subprocess.STDOUT, timeout=timeout,
                           text=True, env=e)
        r.out = p.stdout
    except subprocess.TimeoutExpired as ex:
        r.out = (ex.stdout or b"").decode("utf-8", "replace") if isinstance(ex.stdout, bytes) else (ex.stdout or "")
        r.timeout = True
    r.wall = time.time() - t0
    parse_output(r)
    if os.path.exists(trace_file):
        try:
            r.trace = json.load(open(trace_file))["counterexample"]["state"]
        except Exception:
            r.trace = None
    return r


def parse_output(r):
    out = r.out
    m = re.search(r"(\d+) states generated, (\d+) distinct states found", out)
    if m:
        r.generated, r.distinct = int(m.group(1)), int(m.group(2))
    m = re.search(r"depth of the complete state graph search is (\d+)", out)
    if m:
        r.depth = int(m.group(1))
    m = re.search(r"Invariant (\S+) is violated", out)
    if m:
        r.violation = ("invariant", m.group(1))
    elif re.search(r"Deadlock reached", out):
        r.violation = ("deadlock", None)
    elif re.search(r"Action property (\S+) is violated", out):
        r.violation = ("property", re.search(r"Action property (\S+) is violated", out).group(1))
    elif re.search(r"Temporal properties were violated", out):
        r.violation = ("property", "temporal")
    elif re.search(r"Error:", out) and "Model checking completed. No error" not in out:
        m = re.search(r"Error: (.*(?:\n.*){0,6})", out)
        r.violation = ("error", m.group(1) if m else "?")
    r.ok = ("Model checking completed. No error has been found" in out) and not r.timeout
    # per-action coverage lines:  <Step line 12, col 1 to line 14, col 20 of module X>: 12:345
    for m in re.finditer(r"<(\w+) line \d+, col \d+ to line \d+, col \d+ of module (\w+)>: (\d+):(\d+)", out):
        r.coverage[m.group(1)] = (int(m.group(3)), int(m.group(4)))


# --------------------------------------------------------------------------------- state graph

JAVA_OPTS = "-XX:+UseParallelGC -Xss64m -Xmx%s -Xms%s"

_edge = re.compile(r'^<<"E", <<(-?\d+), (-?\d+)>>, <<(-?\d+), (-?\d+)>>, (\d), "(.*)", "(.*)">>$')
_init = re.compile(r'^<<"I", <<(-?\d+), (-?\d+)>>, "(.*)">>$')


def _unq(s):
    return json.loads('"' + s + '"')


class Graph:
    def __init__(self):
        self.lbl = {}       # node -> label dict (label of the step that led to it)
        self.succ = {}      # node -> list of nodes
        self.inits = []     # initial nodes
        self.prog = {}      # init node -> program
        self.done = set()   # nodes in which every thread has finished (AllDone)
        self.cdone = set()  # nodes in which every client program has finished
        self.blocked = {}   # node -> {thread: what it is parked in front of} (operations that cannot complete)

    def edges(self):
        return sum(len(v) for v in self.succ.values())


def graph(d, module, cfg_text, timeout=900, heap="6g", workers=12):
    """run TLC on a module that EXTENDS Gen with `ACTION_CONSTRAINT EmitEdge` / `INVARIANT EmitInit`
    and rebuild the labelled state graph from the printed edges"""
    with open(os.path.join(d, module + ".cfg"), "w") as f:
        f.write(cfg_text + "\nACTION_CONSTRAINT EmitEdge\nINVARIANT EmitInit\n")
    g = Graph()
    cmd = ["tlc", "-workers", str(workers), "-metadir", os.path.join(d, "meta_" + module), "-cleanup",
           "-noGenerateSpecTE", "-config", module + ".cfg", module + ".tla"]
    r = TlcResult()
    t0 = time.time()
    e = dict(os.environ)
    e["JAVA_TOOL_OPTIONS"] = JAVA_OPTS % (heap, heap)
    p = subprocess.Popen(cmd, cwd=d, stdout=subprocess.PIPE, stderr=subprocess.STDOUT, text=True, env=e)
    timer = threading.Timer(timeout, p.kill)
    timer.start()
    other = []
    seen = set()
    try:
        for line in p.stdout:
            if line.startswith('<<"E"'):
                m = _edge.match(line.rstrip("\n"))
                if not m:
                    other.append("BAD EDGE LINE " + line[:200])
                    continue
                u = m.group(1) + ":" + m.group(2)
                v = m.group(3) + ":" + m.group(4)
                if (u, v) in seen:
                    continue
                seen.add((u, v))
                g.succ.setdefault(u, []).append(v)
                g.succ.setdefault(v, [])
                if v not in g.lbl:
                    g.lbl[v] = json.loads(_unq(m.group(6)))
                    if m.group(5) in ("1", "3"):
                        g.done.add(v)
                    if m.group(5) in ("2", "3"):
                        g.cdone.add(v)
                    bl = json.loads(_unq(m.group(7)))
                    if bl:
                        g.blocked[v] = bl if isinstance(bl, dict) else {}
            elif line.startswith('<<"I"'):
                m = _init.match(line.rstrip("\n"))
                u = m.group(1) + ":" + m.group(2)
                if u not in g.prog:
                    g.inits.append(u)
                    g.prog[u] = json.loads(_unq(m.group(3)))
                    g.succ.setdefault(u, [])
            else:
                other.append(line)
    finally:
        timer.cancel()
    p.wait()
    r.out = "".join(other)
    r.timeout = p.returncode not in (0, 12, 13) and "Finished in" not in r.out
    r.wall = time.time() - t0
    parse_output(r)
    return r, g
