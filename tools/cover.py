"""From a state graph to complete behaviours: every behaviour starts in an initial state and ends
in a terminal state; together they cover every edge of the graph."""
from collections import deque


def behaviours(g, limit=None, all_paths_below=0):
    """returns (list of behaviours, stats).  behaviour = {"init": node, "nodes": [n0, n1, ...]}"""
    parent = {}
    order = []
    dq = deque()
    for i in g.inits:
        parent[i] = None
        dq.append(i)
    while dq:
        u = dq.popleft()
        order.append(u)
        for v in g.succ.get(u, []):
            if v not in parent:
                parent[v] = u
                dq.append(v)
    # shortest way to a terminal state
    pred = {}
    for u, vs in g.succ.items():
        for v in vs:
            pred.setdefault(v, []).append(u)
    nxt = {}
    dq = deque()
    for u in order:
        if not g.succ.get(u):
            nxt[u] = None
            dq.append(u)
    while dq:
        v = dq.popleft()
        for u in pred.get(v, []):
            if u not in nxt:
                nxt[u] = v
                dq.append(u)
    uncovered = set()
    for u in order:
        for v in g.succ.get(u, []):
            uncovered.add((u, v))
    total_edges = len(uncovered)
    out = []

    def prefix(u):
        p = []
        while u is not None:
            p.append(u)
            u = parent[u]
        p.reverse()
        return p

    for u in order:
        for v in g.succ.get(u, []):
            if (u, v) not in uncovered:
                continue
            path = prefix(u)
            for a, b in zip(path, path[1:]):
                uncovered.discard((a, b))
            cur = u
            nxtnode = v
            while True:
                uncovered.discard((cur, nxtnode))
                path.append(nxtnode)
                cur = nxtnode
                succs = g.succ.get(cur, [])
                if not succs:
                    break
                cand = [w for w in succs if (cur, w) in uncovered]
                if cand:
                    nxtnode = cand[0]
                elif cur in nxt and nxt[cur] is not None:
                    nxtnode = nxt[cur]
                else:
                    break  # no terminal state reachable (cycle): stop here
            out.append({"init": path[0], "nodes": path})
            if limit and len(out) >= limit:
                break
        if limit and len(out) >= limit:
            break
    stats = {"states": len(order), "edges": total_edges, "uncovered_edges": len(uncovered),
             "behaviours": len(out), "terminals": sum(1 for u in order if not g.succ.get(u))}
    return out, stats


def to_json(g, b, bid):
    prog = g.prog[b["init"]]
    steps = [g.lbl[n] for n in b["nodes"][1:]]
    last = b["nodes"][-1]
    end = "done" if last in g.done else ("clients" if last in g.cdone else
                                         ("deadlock" if not g.succ.get(last) else "cut"))
    return {"id": bid, "prog": prog, "steps": steps, "end": end}


def probes(g, per_kind=2, max_total=12):
    """Blocked probes: prefixes (shortest paths) to states in which the model says a parked thread
    cannot take its next step; the replay releases that thread and checks that it really waits.
    Returns behaviours with a "probe" field, a few per kind of blocked operation."""
    from collections import deque
    parent = {}
    dq = deque()
    for i in g.inits:
        parent[i] = None
        dq.append(i)
    order = []
    while dq:
        u = dq.popleft()
        order.append(u)
        for v in g.succ.get(u, []):
            if v not in parent:
                parent[v] = u
                dq.append(v)
    # only states from which the clients can still finish (the probe must not end in a hang)
    pred = {}
    for u, vs in g.succ.items():
        for v in vs:
            pred.setdefault(v, []).append(u)
    ok = set()
    dq = deque(n for n in order if n in g.cdone)
    ok.update(dq)
    while dq:
        v = dq.popleft()
        for u in pred.get(v, []):
            if u not in ok:
                ok.add(u)
                dq.append(u)
    out = []
    count = {}
    for n in order:
        if n not in g.blocked or n not in ok:
            continue
        for t, what in sorted(g.blocked[n].items()):
            if what == "op:wait":
                continue
            kind = what + ("@R" if t == "R" else ("@W" if t.startswith("W") else ""))
            if count.get(kind, 0) >= per_kind:
                continue
            count[kind] = count.get(kind, 0) + 1
            path = []
            u = n
            while u is not None:
                path.append(u)
                u = parent[u]
            path.reverse()
            out.append({"init": path[0], "nodes": path, "probe": {"t": t, "what": what}})
            if len(out) >= max_total:
                return out
    return out


def probe_json(g, b, bid, ms):
    j = to_json(g, b, bid)
    j["end"] = "cut"
    j["probe"] = {"t": b["probe"]["t"], "what": b["probe"]["what"], "ms": ms}
    return j
