"""TLA+ values <-> Python.

parse(text): the value syntax TLC prints (records, sequences, sets, functions, strings, integers,
booleans) into Python (dict, list, frozenset-as-sorted-list, dict, str, int, bool).
render(value): Python -> TLA+ expression.  dict -> record when every key is an identifier and the
dict is wrapped in Rec, otherwise an explicit function (k :> v @@ ...).
"""
import re


class Rec(dict):
    """a dict rendered as a TLA+ record [k |-> v]"""


class Fn(dict):
    """a dict rendered as an explicit function (k :> v @@ ...)"""


class TSet(list):
    """a list rendered as a set"""


def render(v):
    if isinstance(v, bool):
        return "TRUE" if v else "FALSE"
    if isinstance(v, int):
        return str(v)
    if isinstance(v, str):
        return '"' + v + '"'
    if isinstance(v, TSet):
        return "{" + ", ".join(render(x) for x in v) + "}"
    if isinstance(v, (list, tuple)):
        return "<<" + ", ".join(render(x) for x in v) + ">>"
    if isinstance(v, Rec):
        return "[" + ", ".join("%s |-> %s" % (k, render(x)) for k, x in v.items()) + "]"
    if isinstance(v, dict):
        if not v:
            return "[x \\in {} |-> 0]"
        return "(" + " @@ ".join("%s :> %s" % (render(k), render(x)) for k, x in v.items()) + ")"
    raise TypeError(type(v))


_tok = re.compile(r'\s*(<<|>>|\|->|:>|@@|[\[\]{}(),]|"(?:[^"\\]|\\.)*"|-?\d+|[A-Za-z_][A-Za-z0-9_]*)')


def _tokens(s):
    pos = 0
    out = []
    while pos < len(s):
        m = _tok.match(s, pos)
        if not m:
            if s[pos:].strip() == "":
                break
            raise ValueError("bad token at %r" % s[pos:pos + 30])
        out.append(m.group(1))
        pos = m.end()
    return out


def parse(s):
    toks = _tokens(s)
    v, i = _p(toks, 0)
    return v


def _p(t, i):
    x = t[i]
    if x == "<<":
        i += 1
        out = []
        while t[i] != ">>":
            v, i = _p(t, i)
            out.append(v)
            if t[i] == ",":
                i += 1
        return out, i + 1
    if x == "{":
        i += 1
        out = []
        while t[i] != "}":
            v, i = _p(t, i)
            out.append(v)
            if t[i] == ",":
                i += 1
        return out, i + 1
    if x == "[":
        i += 1
        out = {}
        while t[i] != "]":
            k = t[i]
            assert t[i + 1] == "|->", t[i:i + 3]
            v, i = _p(t, i + 2)
            out[k] = v
            if t[i] == ",":
                i += 1
        return out, i + 1
    if x == "(":
        i += 1
        out = {}
        while t[i] != ")":
            k, i = _p(t, i)
            assert t[i] == ":>"
            v, i = _p(t, i + 1)
            out[k] = v
            if t[i] == "@@":
                i += 1
        return out, i + 1
    if x.startswith('"'):
        return bytes(x[1:-1], "utf-8").decode("unicode_escape"), i + 1
    if x == "TRUE":
        return True, i + 1
    if x == "FALSE":
        return False, i + 1
    if re.match(r"-?\d+$", x):
        return int(x), i + 1
    return x, i + 1  # model value / identifier
