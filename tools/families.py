"""Per property: which instances are model-checked, which are replayed on the real crate, which
programs are run freely and validated, and which invariants decide the property."""
import json
import os
import random

from instances import D, O, S, TH, eff, red, instance

ROOT = os.path.dirname(os.path.dirname(os.path.abspath(__file__)))


def open_defects():
    """ids of recorded defects that are still present in /repo (the spec models them)"""
    kf = json.load(open(os.path.join(ROOT, "known_findings.json")))
    return sorted({f["defect"] for f in kf["findings"] if f.get("defect")})


def _i(name, programs, acts, **kw):
    kw.setdefault("defects", open_defects())
    return instance(name, programs, acts, **kw)


STOP = [O("stop"), O("get_state"), O("metrics")]

# ------------------------------------------------------------------------------------ instances


def disp(tier, pol="block", cap=1, name=None):
    """producers racing each other, a reader and a stopper; two reducers, Dispatch/Keep by kind"""
    rs = {"r1": {0: red("D"), 1: red("K")}, "r2": {0: red("D"), 1: red("K", eff("task"))}}
    if tier == "quick":
        progs = [{"c1": [D(1, "impl"), D(2, "trait")], "c2": [D(3, "store")], "c3": [O("get_state")] + STOP}]
        acts = {1: 0, 2: 1, 3: 0}
    else:
        progs = [{"c1": [D(1, "impl"), D(2, "trait")], "c2": [D(3, "store"), D(4, "impl")],
                  "c3": [O("get_state")] + STOP}]
        acts = {1: 0, 2: 1, 3: 0, 4: 1}
    return _i(name or "disp_%s%d" % (pol, cap), progs, acts, cap=cap, pol=pol, reducers=("r1", "r2"),
              red_script=rs, max_tasks=2)


def chain_reg(tier):
    """a reducer added at run time while actions flow: from then on it is part of every chain"""
    progs = [{"c1": [D(1), D(2), O("stop"), O("get_state")], "c2": [S("add_reducer", "r2")]}]
    return _i("chain_reg", progs, {1: 0, 2: 1}, cap=2, red_script={"r1": {0: red("D"), 1: red("K")}, "r2": {0: red("D"), 1: red("D")}},
              fine_reg=True)


def final_stops(tier):
    """close(); stop() and a second stop() from another thread while a backlog is being reduced:
    whichever stop() returns, the state read afterwards is the final one"""
    progs = [{"c1": [D(1), D(2, "trait")], "c2": [O("close"), O("stop"), O("get_state")], "c3": [O("stop"), O("get_state")]}]
    return _i("final_stops", progs, {1: 0, 2: 1}, cap=1, red_script={"r1": {0: red("D"), 1: red("K")}})


def order(tier, pol, cap=1):
    """order of dispatches incl. a follow-up action (Effect::Action) and, in the thorough tier, a thunk"""
    rs = {"r1": {0: red("D"), 1: red("D", eff("act", 9))}}
    if tier == "quick":
        progs = [{"c1": [D(1, "trait"), D(2, "impl")], "c2": [D(4, "store"), O("stop")]}]
        acts = {1: 1, 2: 0, 4: 0, 9: 0}
        mt = 1
    else:
        progs = [{"c1": [D(1, "impl"), D(2, "trait")], "c2": [D(4, "store"), TH(3)], "c3": [O("stop"), O("get_state")]}]
        acts = {1: 1, 2: 0, 3: 0, 4: 0, 9: 0}
        mt = 2
    return _i("order_%s%d" % (pol, cap), progs, acts, cap=cap, pol=pol, red_script=rs, max_tasks=mt)


def order_thunk(tier):
    """a thunk that dispatches and then goes on running, racing ordinary dispatches: once its dispatch()
    has returned the action is queued, ahead of everything dispatched afterwards"""
    progs = [{"c1": [TH(3), D(1, "impl")], "c2": [D(2, "trait")] + STOP}]
    return _i("order_thunk", progs, {1: 0, 2: 0, 3: 0}, cap=2, max_tasks=1)


def deep_queue(pol, cap=3):
    """one producer, a queue of capacity 3 and the reducer free to take items at any moment: the
    pop / retry logic of the drop policies with several items queued"""
    progs = [{"c1": [D(i, "trait" if i % 2 else "impl") for i in range(1, cap + 3)], "c2": [O("stop"), O("metrics")]}]
    return _i("deep_%s%d" % (pol, cap), progs, {i: 0 for i in range(1, cap + 3)}, cap=cap, pol=pol, cb_reads=False)


def mw_dispatch(pol="block"):
    """a middleware uses the dispatcher it is handed: its before_dispatch hook dispatches action 9 while
    action 1 is being processed (the queue has room, as C02 requires)"""
    progs = [{"c1": [D(1, "impl"), D(2, "trait")], "c2": [S("add_sub", "s1"), D(3, "store"), O("stop"), O("get_state"), O("metrics")]}]
    return _i("mwdisp_%s" % pol, progs, {1: 0, 2: 1, 3: 1, 9: 1}, cap=4, pol=pol, mws=("m1",), mw_disp={"m1": {0: 9}},
              subs={"s1": {"kind": "direct"}})


def subs_direct(tier):
    # Keep with an effect must still not notify; two reducers: subscribers see the state after the whole chain
    rs = {"r1": {0: red("D"), 1: red("K", eff("task"))}, "r2": {0: red("D"), 1: red("K")}}
    progs = [{"c1": [S("add_sub", "s1"), S("add_sub", "s2"), D(1), D(2), D(3)] + STOP,
              "c2": [D(4, "trait")] if tier == "quick" else [D(4, "trait"), D(5, "trait")]}]
    acts = {1: 0, 2: 1, 3: 0, 4: 0, 5: 1}
    return _i("subs", progs, acts, cap=2, red_script=rs, max_tasks=2, reducers=("r1", "r2"),
              subs={"s1": {"kind": "direct"}, "s2": {"kind": "direct"}})


def subs_unsub(tier):
    """s2 is registered for the whole run; s1, registered before it, is unsubscribed while actions flow"""
    rs = {"r1": {0: red("D"), 1: red("K")}}
    progs = [{"c1": [S("add_sub", "s1"), S("add_sub", "s2"), S("add_sub", "s3"), D(1), S("unsub", "s1"), D(2)] + STOP,
              "c2": [D(4, "trait")]}]
    return _i("subs_unsub", progs, {1: 0, 2: 0, 4: 0}, cap=2, red_script=rs,
              subs={"s1": {"kind": "direct"}, "s2": {"kind": "direct"}, "s3": {"kind": "direct"}})


def stop_race(tier, pol="block", variant=0):
    """dispatchers racing one stopper; dispatch after the stop; a direct and a channeled subscriber"""
    stops = [[O("stop")], [O("close"), O("stop")], [O("stop"), O("stop")], [O("drop_store")],
             [O("close"), O("drop_store")], [O("drop_store")], [O("stop")], [O("stop")]][variant]
    rs = {"r1": {0: red("D"), 1: red("D", eff("task"))}}
    progs = [{"c1": [S("subscribed", "s1"), D(1, "impl"), D(2, "trait")],
              "c2": stops + [D(3, "impl"), O("get_state"), O("metrics")]}]
    if variant == 6:          # the channeled subscription is being unsubscribed while the store is stopped
        progs[0]["c1"] = progs[0]["c1"] + [S("unsub", "s1")]
    if variant == 7:          # several subscribers to release at shutdown, the channeled one not the first
        progs[0]["c1"] = [S("add_sub", "s2")] + progs[0]["c1"]
    if variant == 5:          # a second handle stops the store while the droppable one is dropped
        progs[0]["c3"] = [O("stop"), O("get_state")]
    elif tier != "quick":
        progs[0]["c3"] = [D(4, "store")]
    acts = {1: 0, 2: 1, 3: 0, 4: 0}
    return _i("stop_%s_v%d" % (pol, variant), progs, acts, cap=1, pol=pol, red_script=rs, max_tasks=1,
              subs={"s1": {"kind": "chan", "cap": 1, "pol": "block"}, "s2": {"kind": "direct"}})


def burst(tier, pol, cap):
    """bursts of capacity+2 with the reducer free to stall anywhere"""
    n = cap + 2
    progs = [{"c1": [D(i, "trait") for i in range(1, n + 1)],
              "c2": [D(10, "impl")] + STOP}]
    acts = {i: 0 for i in range(1, n + 1)}
    acts[10] = 0
    return _i("burst_%s%d" % (pol, cap), progs, acts, cap=cap, pol=pol)


def pipeline_reg(tier):
    """run-time registration of reducer / middleware / subscriber while actions flow"""
    if tier == "quick":
        progs = [{"c1": [D(1), D(2), O("stop"), O("get_state")], "c2": [S("add_reducer", "r2"), S("add_mw", "m2")]}]
    else:
        progs = [{"c1": [D(1), D(2)] + STOP,
                  "c2": [S("add_reducer", "r2"), S("add_mw", "m2"), S("add_sub", "s2")]}]
    return _i("pipe", progs, {1: 0, 2: 1}, cap=2, mws=("m1",), subs={"s1": {"kind": "direct"}, "s2": {"kind": "direct"}},
              red_script={"r1": {0: red("D", eff("task")), 1: red("D")}}, max_tasks=1, fine_reg=True)


def readers(tier):
    progs = [{"c1": [D(1), D(2)] + ([D(3)] if tier != "quick" else []) + STOP,
              "c2": [S("add_sub", "s1"), O("get_state"), O("get_state")],
              "c3": [O("get_state"), O("get_state")]}]
    # the first action is answered Keep with a changed state: published like any other, nobody notified
    # ... and the middleware's before_effect hook either continues or fails: a failed hook takes nothing back
    return _i("read", progs, {1: 1, 2: 0, 3: 0}, cap=2, subs={"s1": {"kind": "direct"}}, mws=("m1",),
              mw_script={"m1": {"before_effect": {0: "*", 1: "*"}}}, mw_verdicts=("C", "E"),
              reducers=("r1", "r2"), red_script={"r1": {0: red("D"), 1: red("K")}, "r2": {0: red("D"), 1: red("K")}})


def life(tier, kind="direct", pol="block", dpol="block", dcap=2):
    """subscribe / unsubscribe (twice) racing dispatches and a stop"""
    reg = {"direct": "add_sub", "sel": "add_sub", "chan": "subscribed"}[kind]
    acts = {1: 1, 2: 0, 3: 1} if kind != "sel" else {1: 1, 2: 0, 3: 0}
    progs = [{"c1": [S("add_sub", "s2"), S(reg, "s1"), S("unsub", "s1"), S("unsub", "s1")],
              "c2": [D(1), D(2)] + ([D(3)] if tier != "quick" else []) + STOP}]
    return _i("life_%s_%s%s" % (kind, pol, "" if dpol == "block" else "_d" + dpol), progs, acts, cap=dcap, pol=dpol,
              subs={"s1": {"kind": kind, "cap": 1, "pol": pol}, "s2": {"kind": "direct"}})


def life_reuse(tier):
    """a subscription handle outlives its subscriber: after unsubscribe() another subscriber is
    registered (by the same thread, so it may well get the released one's address) and the old
    handle is used again - which must do nothing"""
    progs = [{"c1": [S("add_sub", "s1"), S("unsub", "s1"), S("add_sub", "s2"), S("unsub", "s1")],
              "c2": [D(1), D(2)] + STOP}]
    return _i("life_reuse", progs, {1: 0, 2: 0}, cap=2, subs={"s1": {"kind": "direct"}, "s2": {"kind": "direct"}})


def dup_sub(tier):
    """the same subscriber object registered twice in one store: called twice for every action, and the
    first unsubscribe() removes and releases both registrations (retain() by pointer identity)"""
    sh = dict(S("add_sub", "s1"), via="shared")
    progs = [{"c1": [S("add_sub", "s2"), sh, sh, S("unsub", "s1"), S("unsub", "s1")],
              "c2": [D(1), D(2)] + STOP}]
    return _i("dup_sub", progs, {1: 0, 2: 0}, cap=2, subs={"s1": {"kind": "direct"}, "s2": {"kind": "direct"}})


def chan(tier, pol="block", cap=1, unsub=True):
    progs = [{"c1": [S("subscribed", "s1"), S("add_sub", "s2"), D(1), D(2), D(3)] +
              ([S("unsub", "s1")] if unsub else []),
              "c2": STOP}]
    return _i("chan_%s%d_%s" % (pol, cap, "u" if unsub else "s"), progs, {1: 0, 2: 0, 3: 0}, cap=3,
              subs={"s1": {"kind": "chan", "cap": cap, "pol": pol}, "s2": {"kind": "direct"}})


def chan_default(tier):
    """subscribed(): the variant with the default capacity (16) and BlockOnFull"""
    progs = [{"c1": [dict(S("subscribed", "s1"), via="default"), D(1), D(2), S("unsub", "s1")], "c2": STOP}]
    return _i("chan_default", progs, {1: 0, 2: 0}, cap=3,
              subs={"s1": {"kind": "chan", "cap": 16, "pol": "block"}})


def effects(tier, variant=0):
    if variant == 0:
        rs = {"r1": {0: red("D", eff("task")), 1: red("K", eff("panic"))}, "r2": {0: red("D", eff("fn")), 1: red("D")}}
        if tier == "quick":
            rs = {"r1": {0: red("D", eff("task")), 1: red("K", eff("panic"))}, "r2": {0: red("D"), 1: red("D", eff("fn"))}}
            progs = [{"c1": [D(1), D(2), O("stop"), O("metrics")]}]
        else:
            progs = [{"c1": [D(1), D(2)] + STOP, "c2": [O("task"), O("get_state")]}]
        return _i("eff0", progs, {1: 0, 2: 1}, cap=2, reducers=("r1", "r2"), red_script=rs, max_tasks=4)
    if variant == 1:
        rs = {"r1": {0: red("D", eff("act", 9)), 1: red("D", eff("thunk", 8))}}
        progs = [{"c1": [D(1), D(2)] + STOP}]
        return _i("eff1", progs, {1: 0, 2: 1, 8: 2, 9: 2}, cap=2, red_script={"r1": {0: red("D", eff("act", 9)), 1: red("D", eff("thunk", 8)), 2: red("D")}},
                  max_tasks=2, kinds=(0, 1, 2))
    if variant == 4:          # the store is already closed (or being stopped by someone else) when stop() is called
        rs = {"r1": {0: red("D", eff("task")), 1: red("D", eff("fn"))}}
        progs = [{"c1": [D(1), D(2), O("close"), O("stop"), O("metrics")], "c2": [O("stop")]}]
        return _i("eff4", progs, {1: 0, 2: 1}, cap=2, red_script=rs, max_tasks=2)
    if variant == 5:          # several effects of one action, one of them a follow-up action, around shutdown
        rs = {"r1": {0: red("D", eff("act", 9)), 1: red("D")}, "r2": {0: red("D", eff("task")), 1: red("D")}}
        progs = [{"c1": [D(1), O("get_state")], "c2": [O("stop"), O("metrics")]}]
        return _i("eff5", progs, {1: 0, 9: 1}, cap=2, reducers=("r1", "r2"), red_script=rs, max_tasks=2)
    if variant == 3:          # tasks and thunks handed over by a client while the store is running
        progs = [{"c1": [D(1), O("stop"), O("get_state")], "c2": [O("task"), TH(3)]}]
        return _i("eff3", progs, {1: 0, 3: 1}, cap=2, red_script={"r1": {0: red("D", eff("task")), 1: red("D")}}, max_tasks=3)
    rs = {"r1": {0: red("D", eff("task")), 1: red("D", eff("fn"))}}
    progs = [{"c1": [D(1), D(2)] + STOP, "c2": [TH(3)]}]
    return _i("eff2", progs, {1: 0, 2: 1, 3: 1}, cap=1, red_script=rs, mws=("m1",), mw_remove={"m1": {1: "all"}},
              max_tasks=4)


def saturate(tier):
    """free runs only: more slow tasks in flight than the store's pool has workers (rusty_pool's default:
    two per CPU) and then an action with a Task effect - every task and effect still runs on a worker,
    the surplus waits in the pool's queue"""
    try:
        ncpu = len(os.sched_getaffinity(0))
    except AttributeError:
        ncpu = os.cpu_count() or 4
    n = 2 * ncpu + 3
    progs = [{"c1": [O("task")] * n + [D(1), D(2)] + STOP}]
    i = _i("saturate", progs, {1: 0, 2: 0}, cap=2, red_script={"r1": {0: red("D", eff("task"))}}, max_tasks=n + 2)
    i["slow_effect_us"] = 40000
    return i


def slow_stop(tier):
    """free runs only: the reducer is held up (script "G") for longer than stop() is prepared to wait - both of
    its 3 s waits give up and it returns ("timeout") with the loop still at work; once let go, the loop
    reduces everything that had been accepted before it ends"""
    progs = [{"c1": [D(5), D(1), D(2)],
              "c2": [S("wait", "in"), O("stop"), S("signal", "go"), O("await_end"), O("get_state")]}]
    i = _i("slow_stop", progs, {5: 2, 1: 0, 2: 0}, cap=4, kinds=(0, 1, 2),
           red_script={"r1": {0: red("D"), 1: red("D"), 2: red("G")}})
    i["stop_timeouts"] = True
    return i


def middleware(tier, n=2):
    """every verdict at every hook of the starred middlewares"""
    star = {"before_reduce": {0: "*", 1: "*"}, "before_effect": {0: "*", 1: "*"}, "before_dispatch": {0: "*", 1: "*"}}
    mws = tuple("m%d" % i for i in range(1, n + 1))
    ms = {m: star for m in mws}
    # the last reducer answers Keep (with a changed state) for kind 1: the hooks must still see the state after it
    rs = {"r1": {0: red("D", eff("task")), 1: red("D", eff("fn"))}, "r2": {0: red("D", eff("task")), 1: red("K")}}
    progs = [{"c1": [S("add_sub", "s1"), D(1)] + ([D(2)] if tier != "quick" or n == 1 else []) + STOP}]
    return _i("mw%d" % n, progs, {1: 0, 2: 1}, cap=2, mws=mws, mw_script=ms, mw_verdicts=("C", "D", "B", "E"),
              mw_remove={"m1": {0: "first"}}, reducers=("r1", "r2"), red_script=rs, subs={"s1": {"kind": "direct"}},
              max_tasks=4)


def subs_mw(tier):
    """direct subscribers behind two middlewares whose before_dispatch hooks take every verdict:
    an action is delivered iff no hook up to the first BreakChain said DoneAction last"""
    star = {"before_dispatch": {0: "*", 1: "C"}}
    progs = [{"c1": [S("add_sub", "s1"), S("add_sub", "s2"), D(1), D(2)] + ([D(3)] if tier != "quick" else []) + STOP}]
    return _i("subs_mw", progs, {1: 0, 2: 1, 3: 0}, cap=2, mws=("m1", "m2"), mw_script={"m1": star, "m2": star},
              mw_verdicts=("C", "D", "B", "E"), subs={"s1": {"kind": "direct"}, "s2": {"kind": "direct"}})


def iterator(tier, drop=False):
    if drop:
        progs = [{"c1": [S("iter", "s1"), S("signal", "g"), S("next", "s1"), S("drop_iter", "s1")],
                  "c2": [D(1), D(2), S("wait", "g")] + STOP}]
    else:
        # another subscription is released while the iterator is being fed: the iterator misses nothing
        progs = [{"c1": [S("iter", "s1"), S("signal", "g")] + [S("next", "s1")] * 4 + [S("drop_iter", "s1")],
                  "c2": [S("add_sub", "s2"), D(1), D(2), S("unsub", "s2"), S("wait", "g")] + STOP}]
    return _i("iter_%s" % ("drop" if drop else "read"), progs, {1: 0, 2: 0}, cap=2,
              subs={"s1": {"kind": "iter", "cap": 1, "pol": "block"}, "s2": {"kind": "direct"}})


def sel_store(tier, big=False):
    """a selector subscription on a running store: the selected value (number of kind-1 actions in
    the state) changes only with kind-1 actions"""
    n = 8 if big else (4 if tier == "quick" else 5)
    kinds = [1, 0, 0, 1, 1, 0, 1, 0]
    acts = {i + 1: kinds[i] for i in range(n)}
    if big:
        progs = [{"c1": [S("add_sub", "s1"), S("add_sub", "s2")] + [D(i) for i in (1, 2, 3, 4)] + STOP,
                  "c2": [D(i, "trait") for i in (5, 6, 7, 8)]}]
    else:
        progs = [{"c1": [S("add_sub", "s1"), S("add_sub", "s2")] + [D(i) for i in range(1, n)] + STOP, "c2": [D(n, "trait")]}]
    return _i("sel%s" % ("_big" if big else ""), progs, acts, cap=2 if not big else 8,
              subs={"s1": {"kind": "sel"}, "s2": {"kind": "direct"}})


def api_mix(tier, k, free=False):
    """role combinations for C13.  free=True: the variant run on free OS threads, where a metrics
    snapshot taken while the store is running cannot be matched exactly (separate atomics): the
    reader reads the state twice instead"""
    roles = {
        "prod": [D(1, "impl"), D(2, "trait")],
        "subm": [dict(S("add_sub", "s1"), via="store"), S("unsub", "s1")],
        "chanm": [dict(S("subscribed", "s2"), via="store"), S("unsub", "s2")],
        "iterm": [S("iter", "s3"), S("signal", "g"), S("next", "s3"), S("next", "s3"), S("next", "s3"), S("drop_iter", "s3")],
        "read": [O("get_state"), O("metrics")],
        "reg": [S("add_reducer", "r2"), S("add_mw", "m1")],
        "stop": [dict(O("stop"), via="store")],
        "close": [O("close"), O("stop")],
        "drop": [O("drop_store")],
        "selm": [S("add_sub", "s4"), S("unsub", "s4")],
        "iterd": [S("iter", "s3"), S("signal", "g"), S("next", "s3"), S("drop_iter", "s3")],
    }
    combos = [("prod", "subm", "stop"), ("prod", "chanm", "stop"), ("prod", "iterm", "stop"),
              ("prod", "chanm", "close"), ("prod", "selm", "drop"), ("prod", "reg", "stop"),
              ("prod", "read", "chanm", "stop"), ("prod", "subm", "chanm", "drop"),
              ("prod", "iterm", "chanm", "stop"), ("prod", "prod2", "stop"), ("prod", "iterd", "stop")]
    roles["prod2"] = [D(3, "store"), D(4, "impl")]
    if free:
        roles["read"] = [O("get_state"), O("get_state")]
    c = combos[k % len(combos)]
    if "iterm" in c or "iterd" in c:      # the store is stopped only after the iterator exists
        for r in ("stop", "close", "drop"):
            roles[r] = [S("wait", "g")] + roles[r]
    progs = [{"c%d" % (i + 1): roles[r] for i, r in enumerate(c)}]
    pol = ["block", "oldest", "latest"][(k // len(combos)) % 3]
    return _i("api%d" % k, progs, {1: 0, 2: 1, 3: 0, 4: 1}, cap=1, pol=pol,
              subs={"s1": {"kind": "direct"}, "s2": {"kind": "chan", "cap": 1, "pol": "block"},
                    "s3": {"kind": "iter", "cap": 1, "pol": "block"}, "s4": {"kind": "sel"}},
              red_script={"r1": {0: red("D"), 1: red("D", eff("task"))}}, max_tasks=2,
              fine_reg=("reg" in c))       # run-time registration needs the finer park points to be matched


def api_read(tier, free=False):
    """readers of state and metrics while producers are blocked on the full queue and the store is stopped:
    reading never waits for anything a blocked dispatcher holds"""
    rd = [O("get_state"), O("get_state")] if free else [O("get_state"), O("metrics"), O("get_state")]
    progs = [{"c1": [D(1, "impl"), D(2, "trait"), D(3, "store")], "c2": rd, "c3": [dict(O("stop"), via="store")]}]
    return _i("api_read", progs, {1: 0, 2: 1, 3: 0}, cap=1, pol="block",
              red_script={"r1": {0: red("D"), 1: red("D", eff("task"))}}, max_tasks=1)


# ---- heavier instances: model checking only (thorough tier), 10^6 .. 10^7 states

def disp_heavy(pol="block", cap=1):
    rs = {"r1": {0: red("D"), 1: red("K")}, "r2": {0: red("D"), 1: red("K", eff("task"))}}
    progs = [{"c1": [D(1, "impl"), D(2, "trait")], "c2": [D(3, "store"), D(4, "impl")], "c3": [D(5, "trait"), D(6, "store")],
              "c4": [O("get_state"), O("stop"), O("get_state")]}]
    return _i("dispH_%s%d" % (pol, cap), progs, {1: 0, 2: 1, 3: 0, 4: 1, 5: 0, 6: 0}, cap=cap, pol=pol,
              reducers=("r1", "r2"), red_script=rs, max_tasks=2, cb_reads=False)


def burst_heavy(pol, cap):
    n = cap + 1
    progs = [{"c1": [D(i, "trait") for i in range(1, n + 1)], "c2": [D(10 + i, "impl") for i in range(1, n + 1)],
              "c3": [D(20, "store")] + STOP}]
    acts = {i: 0 for i in list(range(1, n + 1)) + [10 + i for i in range(1, n + 1)] + [20]}
    return _i("burstH_%s%d" % (pol, cap), progs, acts, cap=cap, pol=pol, cb_reads=False)


def stop_heavy(pol="block"):
    rs = {"r1": {0: red("D"), 1: red("D", eff("task"))}}
    progs = [{"c1": [S("subscribed", "s1"), D(1, "impl"), D(2, "trait")], "c2": [D(4, "store"), D(5, "trait")],
              "c3": [O("stop"), D(3, "impl"), O("get_state"), O("metrics")], "c4": [O("stop")]}]
    return _i("stopH_%s" % pol, progs, {1: 0, 2: 1, 3: 0, 4: 0, 5: 0}, cap=1, pol=pol, red_script=rs, max_tasks=1,
              subs={"s1": {"kind": "chan", "cap": 1, "pol": "block"}}, cb_reads=False)


def subs_heavy():
    rs = {"r1": {0: red("D"), 1: red("K")}}
    progs = [{"c1": [S("add_sub", "s1"), S("add_sub", "s2"), D(1), D(2), S("unsub", "s1"), D(3)] + STOP,
              "c2": [D(4, "trait"), D(5, "trait")], "c3": [S("add_sub", "s3"), S("unsub", "s3")]}]
    return _i("subsH", progs, {1: 0, 2: 1, 3: 0, 4: 0, 5: 1}, cap=2, red_script=rs, cb_reads=False,
              subs={"s1": {"kind": "direct"}, "s2": {"kind": "direct"}, "s3": {"kind": "direct"}})


def chan_heavy(pol, cap):
    progs = [{"c1": [S("subscribed", "s1"), S("add_sub", "s2"), D(1), D(2), D(3), D(4), S("unsub", "s1")],
              "c2": [D(5, "trait")] + STOP}]
    return _i("chanH_%s%d" % (pol, cap), progs, {1: 0, 2: 0, 3: 0, 4: 0, 5: 0}, cap=2, cb_reads=False,
              subs={"s1": {"kind": "chan", "cap": cap, "pol": pol}, "s2": {"kind": "direct"}})


def iter_heavy():
    progs = [{"c1": [S("iter", "s1"), S("signal", "g")] + [S("next", "s1")] * 3 + [S("drop_iter", "s1")],
              "c2": [S("add_sub", "s2"), D(1), D(2), D(3), S("wait", "g")] + STOP, "c3": [D(4, "trait")]}]
    return _i("iterH", progs, {1: 0, 2: 0, 3: 0, 4: 0}, cap=2, cb_reads=False,
              subs={"s1": {"kind": "iter", "cap": 1, "pol": "block"}, "s2": {"kind": "direct"}})


HEAVY = {
    "C01": lambda: [(disp_heavy("block", 1), ["C01_Fold", "C01_ExactlyOnce", "C01_Threaded", "C02_ReduceOrder"], ["C01_FinalAfterStop"]),
                    (disp_heavy("block", 2), ["C01_Fold", "C01_ExactlyOnce", "C01_Threaded", "C02_ReduceOrder"], [])],
    "C02": lambda: [(disp_heavy("block", 1), ["C02_Order", "C02_ReduceOrder"], []),
                    (burst_heavy("oldest", 2), ["C02_Order", "C02_ReduceOrder"], []),
                    (burst_heavy("latest", 2), ["C02_Order", "C02_ReduceOrder"], [])],
    "C03": lambda: [(subs_heavy(), ["C03_OnlyDispatch", "C03_EveryDispatch", "C03_StateAndOrder", "C03_Stream", "C09_Notified"], [])],
    "C04": lambda: [(stop_heavy(p), ["C04_Barrier", "C04_ErrNeverReduced", "C10_Flush"], ["C04_Final"]) for p in ("block", "latest")],
    "C05": lambda: [(burst_heavy("block", c), ["C05_Bound", "C05_NoLoss", "C01_ExactlyOnce"], []) for c in (1, 2, 3)],
    "C06": lambda: [(burst_heavy(p, c), ["C06_NeverBlocks", "C06_Conservation", "C06_ErrIffDropped", "C06_Exact", "C05_Bound", "C02_Order"], [])
                    for p in ("oldest", "latest") for c in (1, 2)],
    "C09": lambda: [(subs_heavy(), ["C09_Notified", "C09_SilentAfter", "C09_ReleasedAtMostOnce", "C09_Released"], [])],
    "C10": lambda: [(chan_heavy(p, c), ["C10_OwnThread", "C10_Stream", "C10_Flush", "C10_NoStall", "C05_Bound"], [])
                    for (p, c) in (("block", 1), ("oldest", 1), ("latest", 2))],
    "C13": lambda: [(stop_heavy("block"), ["C13_NoDeadlock"], []), (iter_heavy(), ["C13_NoDeadlock"], []),
                    (chan_heavy("block", 1), ["C13_NoDeadlock"], [])],
    "C14": lambda: [(iter_heavy(), ["C14_Stream", "C14_Detached", "C13_NoDeadlock"], [])],
    "C15": lambda: [],
    "C18": lambda: [(burst_heavy("oldest", 2), ["C18_Balance", "C06_Conservation"], ["C18_Monotone"]),
                    (stop_heavy("latest"), ["C18_Balance"], ["C18_Monotone"])],
}


def vary(prog, rnd):
    """a random variant of a program with the same structure: dispatches are dealt out differently
    (which client sends which action, through which entry point) and a few are left out.  Dispatch
    calls depend on nothing, so every variant is a legal program of the same instance."""
    slots = [(c, i) for c in sorted(prog) for i, o in enumerate(prog[c]) if o["op"] == "dispatch"]
    acts = [prog[c][i]["a"] for (c, i) in slots]
    rnd.shuffle(acts)
    out = {c: [dict(o) for o in ops] for c, ops in prog.items()}
    drop = set()
    for k, (c, i) in enumerate(slots):
        out[c][i]["a"] = acts[k]
        out[c][i]["via"] = rnd.choice(["impl", "trait", "store"])
        if len(slots) > 2 and rnd.random() < 0.15:
            drop.add((c, i))
    for c in out:
        out[c] = [o for i, o in enumerate(out[c]) if (c, i) not in drop]
    return out


def bigger(inst, k, cap=None):
    """the same programs with k dispatches for every dispatch (fresh action ids, same kind and entry
    point): too large for TLC to enumerate, used for free runs validated against the specification"""
    acts = dict(inst["acts"])
    nxt = max(acts) + 100
    progs = []
    for p in inst["programs"]:
        q = {}
        for c, ops in p.items():
            out = []
            for o in ops:
                if o["op"] == "unsub":
                    continue        # subscriptions stay until the store stops: the scaled-up runs are about backlog
                out.append(o)
                if o["op"] == "get_state":
                    out.extend([o] * (k - 1))
                if o["op"] == "dispatch":
                    for _ in range(k - 1):
                        nxt += 1
                        acts[nxt] = acts[o["a"]]
                        out.append(dict(o, a=nxt))
            q[c] = out
        # in the scaled-up runs the store is shut down only after the dispatchers are through (the races
        # between dispatch and shutdown are what the small instances enumerate)
        senders = [c for c, ops in q.items() if any(o["op"] == "dispatch" for o in ops)]
        for c in senders:
            last = max(i for i, o in enumerate(q[c]) if o["op"] == "dispatch")
            q[c] = q[c][:last + 1] + [S("signal", "sent_" + c)] + q[c][last + 1:]
        for c, ops in q.items():
            idx = [i for i, o in enumerate(ops) if o["op"] in ("stop", "close", "drop_store")]
            if idx:
                i0 = idx[0]
                waits = [S("wait", "sent_" + c2) for c2 in senders
                         if c2 != c or any(o["op"] == "signal" and o["s"] == "sent_" + c for o in ops[:i0])]
                q[c] = ops[:i0] + waits + ops[i0:]
        progs.append(q)
    b = dict(inst)
    b.update(name=inst["name"] + "_x%d%s" % (k, "c%d" % cap if cap else ""), programs=progs, acts=acts,
             cap=cap or inst["cap"], max_tasks=inst["max_tasks"] * k + 2,
             slow_reduce_us=400 if cap else 0, slow_deliver_us=3000 if cap else 0, slow_clone_us=40 if cap else 0)
    if cap:     # larger subscriber channels as well (iterators keep their capacity of 1)
        b["subs"] = {s_: (dict(c, cap=cap) if c["kind"] == "chan" else c) for s_, c in inst["subs"].items()}
    return b


# ------------------------------------------------------------------------------------ property table

SAFETY_COMMON = ["C05_Bound", "C01_Fold", "C06_Conservation", "C11_AtMostOnce", "C09_ReleasedAtMostOnce"]


def table(pid, tier):
    """returns dict: mc = [(inst, invariants, properties)], gen = [(inst, max behaviours)],
    free = [(inst, repetitions)], strict = [(inst, invariant)]"""
    q = tier == "quick"
    T = {}
    if pid == "C01":
        a, b, c, e = disp(tier, "block", 1), disp(tier, "block", 2), chain_reg(tier), final_stops(tier)
        inv = ["C01_Fold", "C01_ExactlyOnce", "C01_Threaded", "C02_ReduceOrder", "C08_Valid", "C07_Registered"]
        T = dict(mc=[(a, inv, ["C01_FinalAfterStop"]), (c, inv, []), (e, inv, ["C01_FinalAfterStop"])] +
                 ([] if q else [(b, inv, ["C01_FinalAfterStop"])]),
                 gen=[(a, 900 if q else 20000), (c, 400 if q else 20000), (e, 400 if q else 20000)],
                 free=[(b, 150 if q else 1500), (c, 60 if q else 600), (e, 40 if q else 600)])
    elif pid == "C02":
        insts = [order(tier, p) for p in ("block", "oldest", "latest")] + [deep_queue("oldest"), deep_queue("latest"),
                                                                          mw_dispatch("block"), order_thunk(tier)]
        inv = ["C02_Order", "C02_ReduceOrder", "C11_Followup"]
        T = dict(mc=[(i, inv, []) for i in insts], gen=[(i, 350 if q else 10000) for i in insts],
                 free=[(i, 40 if q else 600) for i in insts])
    elif pid == "C03":
        a, b, c = subs_direct(tier), subs_unsub(tier), subs_mw(tier)
        inv = ["C03_OnlyDispatch", "C03_EveryDispatch", "C03_StateAndOrder", "C03_Stream", "C07_DirectOnReducer",
               "C09_Notified"]
        T = dict(mc=[(a, inv, []), (b, inv, []), (c, inv, [])],
                 gen=[(a, 800 if q else 20000), (b, 800 if q else 20000), (c, 300 if q else 20000)],
                 free=[(a, 100 if q else 1500), (b, 100 if q else 1500), (c, 40 if q else 500)])
    elif pid == "C04":
        vs = [0, 1, 6, 7] if q else [0, 1, 2, 6, 7]
        insts = [stop_race(tier, "block", v) for v in vs] + [stop_race(tier, "latest", 0)] + \
            ([] if q else [stop_race(tier, "oldest", 0)])
        inv = ["C04_Barrier", "C04_ErrNeverReduced", "C10_Flush", "C09_Released"]
        T = dict(mc=[(i, inv, ["C04_Final"]) for i in insts], gen=[(i, 400 if q else 10000) for i in insts[:5]],
                 free=[(i, 40 if q else 500) for i in insts], live=[(insts[0], ["Live_ClientsDone", "Live_StopReturns"])])
    elif pid == "C05":
        insts = [burst(tier, "block", 1)] + ([] if q else [burst(tier, "block", 2)])
        inv = ["C05_Bound", "C05_NoLoss", "C01_ExactlyOnce"]
        T = dict(mc=[(i, inv, []) for i in insts], gen=[(insts[0], 1500 if q else 20000)],
                 free=[(i, 100 if q else 800) for i in insts] + [(slow_stop(tier), 1)] * (1 if q else 3),
                 live=[(i, ["Live_ClientsDone", "Live_SendResumes"]) for i in insts])
    elif pid == "C06":
        insts = [burst(tier, "oldest", 1), burst(tier, "latest", 1), deep_queue("oldest")] + \
            ([] if q else [burst(tier, "oldest", 2), burst(tier, "latest", 2), deep_queue("latest")])
        inv = ["C06_NeverBlocks", "C06_Conservation", "C06_ErrIffDropped", "C06_Exact", "C06_RetryFindsRoom", "C05_Bound",
               "C02_Order"]
        T = dict(mc=[(i, inv, []) for i in insts], gen=[(i, 700 if q else 10000) for i in insts[:3]],
                 free=[(i, 60 if q else 500) for i in insts])
    elif pid == "C07":
        a, b, c = pipeline_reg(tier), subs_unsub(tier), middleware(tier, 2)   # c: every verdict at every hook
        inv = ["C07_ReducerContext", "C07_DirectOnReducer", "C07_Registered", "C07_InitRegistered", "C01_Fold", "C09_Notified"]
        T = dict(mc=[(a, inv, []), (b, inv, []), (c, inv, [])],
                 gen=[(a, 800 if q else 20000), (b, 400 if q else 20000), (c, 500 if q else 20000)],
                 free=[(a, 100 if q else 1500), (b, 60 if q else 1000), (c, 40 if q else 600)])
    elif pid == "C08":
        a = readers(tier)
        inv = ["C08_Published", "C08_Valid", "C01_Fold"]
        T = dict(mc=[(a, inv, ["C08_Monotone"])], gen=[(a, 1500 if q else 20000)], free=[(a, 150 if q else 1500)])
    elif pid == "C09":
        insts = [life(tier, "direct"), life(tier, "chan"), life(tier, "direct", "block", "latest", 1)] + \
            ([] if q else [life(tier, "sel"), life(tier, "chan", "oldest"), life(tier, "chan", "block", "oldest", 1)])
        inv = ["C09_Notified", "C09_SilentAfter", "C09_SilentAfter_strict", "C09_ReleasedAtMostOnce", "C09_Released", "C03_Stream"]
        dup, reuse = dup_sub(tier), life_reuse(tier)
        dinv = ["C09_Notified", "C09_SilentAfter", "C09_ReleasedAtMostOnce", "C09_Released", "C09_DupStream"]
        T = dict(mc=[(i, inv, []) for i in insts] + [(dup, dinv, []), (reuse, inv, [])],
                 gen=[(i, 500 if q else 10000) for i in insts[:3]] + [(dup, 300 if q else 10000), (reuse, 300 if q else 10000)],
                 free=[(i, 50 if q else 500) for i in insts] + [(dup, 40 if q else 500), (reuse, 40 if q else 500)],
                 strict=[])
    elif pid == "C10":
        insts = [chan(tier, "block", 1, True), chan(tier, "oldest", 1, False), chan_default(tier),
                 life(tier, "chan", "block", "latest", 1), stop_race(tier, "block", 1)] + \
            ([] if q else [chan(tier, "latest", 1, True), chan(tier, "block", 2, False), chan(tier, "oldest", 2, True)])
        inv = ["C10_OwnThread", "C10_Stream", "C10_Flush", "C10_NoStall", "C05_Bound"]
        T = dict(mc=[(i, inv, []) for i in insts], gen=[(i, 450 if q else 10000) for i in insts[:5]],
                 free=[(i, 40 if q else 500) for i in insts],
                 live=[(insts[0], ["Live_ClientsDone", "Live_StopReturns"])])      # unsubscribe() and stop() return
    elif pid == "C11":
        insts = [effects(tier, 0), effects(tier, 4), effects(tier, 5), effects(tier, 1), effects(tier, 3)] + \
            ([] if q else [effects(tier, 2)])
        inv = ["C11_AtMostOnce", "C11_Once", "C11_Worker", "C11_Followup", "C11_Once_strict"]
        mw = middleware(tier, 2)       # every verdict at every hook: no verdict of before_effect removes an effect
        T = dict(mc=[(i, inv, ["C11_QuietAfterStop"]) for i in insts] + [(mw, inv, [])],
                 gen=[(i, 450 if q else 10000) for i in insts[:4]] + [(mw, 400 if q else 10000)],
                 free=[(i, 70 if q else 500) for i in insts] + [(mw, 40 if q else 500), (saturate(tier), 3 if q else 12)])
    elif pid == "C12":
        insts = [middleware(tier, 1), middleware(tier, 2)] + ([] if q else [middleware(tier, 3)])
        inv = ["C12_Veto", "C12_Suppress", "C01_Fold", "C07_ReducerContext"]
        T = dict(mc=[(i, inv, []) for i in insts], gen=[(i, 1200 if q else 30000) for i in insts],
                 free=[(i, 100 if q else 1000) for i in insts[:2]])
    elif pid == "C13":
        ks = [1, 2, 10, 23] if q else list(range(33))
        insts = [api_mix(tier, k) for k in ks] + [api_read(tier)]
        inv = ["C13_NoDeadlock"]
        T = dict(mc=[(i, inv, []) for i in insts], gen=[(i, 400 if q else 2500) for i in (insts[:3] + insts[-1:] if q else insts[:8] + insts[-1:])],
                 free=[(api_mix(tier, k, free=True), 40 if q else 100) for k in ks] + [(api_read(tier, free=True), 40 if q else 100)],
                 live=[(i, ["Live_ClientsDone", "Live_StopReturns"]) for i in (insts[1:3] if q else insts[:6])])
    elif pid == "C14":
        insts = [iterator(tier, False), iterator(tier, True)]
        inv = ["C14_Stream", "C14_Detached", "C13_NoDeadlock"]
        T = dict(mc=[(i, inv, []) for i in insts], gen=[(i, 800 if q else 20000) for i in insts],
                 free=[(i, 100 if q else 1000) for i in insts],
                 live=[(i, ["Live_ClientsDone"]) for i in insts])      # the consumer's next() always returns
    elif pid == "C15":
        insts = [stop_race(tier, "block", 3), stop_race(tier, "block", 4), stop_race(tier, "latest", 3)] + \
            ([] if q else [stop_race(tier, "oldest", 3), stop_race(tier, "block", 5)])
        inv = ["C04_Barrier", "C04_ErrNeverReduced", "C10_Flush", "C09_Released"]
        T = dict(mc=[(i, inv, ["C04_Final"]) for i in insts], gen=[(i, 500 if q else 15000) for i in insts[:3]],
                 free=[(i, 60 if q else 600) for i in insts])
    elif pid == "C18":
        insts = [burst(tier, "oldest", 1), middleware(tier, 2), effects(tier, 0), stop_race(tier, "latest", 0)]
        inv = ["C18_Balance", "C06_Conservation"]
        T = dict(mc=[(i, inv, ["C18_Monotone"]) for i in insts], gen=[(i, 500 if q else 5000) for i in insts],
                 free=[(i, 60 if q else 400) for i in insts])
    for k in ("mc", "gen", "free", "strict", "live"):
        T.setdefault(k, [])
    if q and T["free"]:
        # a look beyond the small scope already in the quick tier: the first instance's programs with 5
        # dispatches for each one, once with the instance's capacity and once with capacity 6
        inst0 = T["free"][0][0]
        uses_followup = any(e["eff"]["k"] in ("act", "thunk") for t in inst0["red_script"].values() for e in t.values()) \
            or any(o["op"] == "thunk" for p in inst0["programs"] for ops in p.values() for o in ops) \
            or any(v for t in inst0.get("mw_disp", {}).values() for v in t.values())
        if not uses_followup:
            T["free"] = T["free"] + [(bigger(inst0, 5), 20), (bigger(inst0, 6, cap=16), 25)]   # 16 = the library's default
    if not q and pid in HEAVY:
        T["mc"] = T["mc"] + HEAVY[pid]()
    if not q:
        # beyond the bounds TLC enumerates: the same programs with 4 dispatches for each one
        extra = []
        for inst, reps in T["free"]:
            uses_followup = any(e["eff"]["k"] in ("act", "thunk") for t in inst["red_script"].values() for e in t.values()) \
                or any(o["op"] == "thunk" for p in inst["programs"] for ops in p.values() for o in ops)
            if not uses_followup:
                extra.append((bigger(inst, 4), max(100, reps // 3)))
        T["free"] = T["free"] + extra
    return T
