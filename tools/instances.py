"""Instances of spec/RsStore.tla: one Python description is turned into both the TLC constants
(an MC module + cfg) and the harness configuration, so model and code are configured alike."""
import os
from tlaval import render, Rec, Fn, TSet


# ----------------------------------------------------------------------------- op constructors
def D(a, via="impl"):
    return {"op": "dispatch", "a": a, "via": via, "s": "-"}


def O(op):
    return {"op": op, "a": 0, "via": "-", "s": "-"}


def S(op, s):
    return {"op": op, "a": 0, "via": "-", "s": s}


def TH(a):
    return {"op": "thunk", "a": a, "via": "-", "s": "-"}


def eff(k="none", a=0):
    return {"k": k, "a": a}


def red(op="D", e=None):
    return {"op": op, "eff": e or eff()}


def instance(name, programs, acts, cap=1, pol="block", reducers=("r1",), red_script=None,
             mws=(), mw_script=None, mw_verdicts=(), mw_remove=None, mw_disp=None, subs=None, max_tasks=0,
             cb_reads=True, defects=(), kinds=(0, 1), fine_reg=False):
    """programs: list of {client: [ops]} alternatives; acts: {id: kind};
    red_script: {rid: {kind: red(...)}} (default: every reducer answers Dispatch, no effect)."""
    subs = subs or {}
    rids = set(reducers)
    mids = set(mws)
    for p in programs:
        for ops in p.values():
            for o in ops:
                if o["op"] == "add_reducer":
                    rids.add(o["s"])
                if o["op"] == "add_mw":
                    mids.add(o["s"])
    red_script = red_script or {}
    rids |= set(red_script)
    rs = {r: {k: red_script.get(r, {}).get(k, red()) for k in kinds} for r in sorted(rids)}
    mw_script = mw_script or {}
    ms = {m: {ph: {k: mw_script.get(m, {}).get(ph, {}).get(k, "C") for k in kinds}
              for ph in ("before_reduce", "before_effect", "before_dispatch")} for m in sorted(mids)}
    mw_remove = mw_remove or {}
    mr = {m: {k: mw_remove.get(m, {}).get(k, "none") for k in kinds} for m in sorted(mids)}
    mw_disp = mw_disp or {}
    md = {m: {k: mw_disp.get(m, {}).get(k, 0) for k in kinds} for m in sorted(mids)}
    return dict(name=name, programs=programs, acts=acts, cap=cap, pol=pol, reducers=list(reducers),
                red_script=rs, mws=list(mws), mw_script=ms, mw_verdicts=list(mw_verdicts), mw_remove=mr, mw_disp=md,
                subs=subs, max_tasks=max_tasks, cb_reads=cb_reads, defects=list(defects), kinds=list(kinds),
                fine_reg=fine_reg)


# ----------------------------------------------------------------------------- TLA side
def _op(o):
    return Rec(op=o["op"], a=o["a"], via=o["via"], s=o["s"])


def mc_module(inst, modname, extends="RsStore", extra_defs="", programs=None):
    programs = programs if programs is not None else inst["programs"]
    clients = sorted({c for p in programs for c in p})
    progs = TSet([Fn({c: [_op(o) for o in p.get(c, [])] for c in clients}) for p in programs])
    rs = Fn({r: Fn({k: Rec(op=e["op"], eff=Rec(k=e["eff"]["k"], a=e["eff"]["a"])) for k, e in t.items()})
             for r, t in inst["red_script"].items()})
    ms = Fn({m: Fn({ph: Fn(dict(t2)) for ph, t2 in t.items()}) for m, t in inst["mw_script"].items()})
    mr = Fn({m: Fn(dict(t)) for m, t in inst["mw_remove"].items()})
    subs = inst["subs"]
    defs = {
        "MCClients": TSet(clients),
        "MCPrograms": progs,
        "MCActs": TSet(sorted(inst["acts"])),
        "MCKind": Fn({a: k for a, k in sorted(inst["acts"].items())}),
        "MCInitReducers": list(inst["reducers"]),
        "MCInitMws": list(inst["mws"]),
        "MCRedScript": rs,
        "MCMwScript": ms,
        "MCMwVerdicts": TSet(inst["mw_verdicts"]),
        "MCMwRemove": mr,
        "MCMwDisp": Fn({m: Fn(dict(t)) for m, t in inst.get("mw_disp", {}).items()}),
        "MCSubs": TSet(sorted(subs)),
        "MCSubKind": Fn({s: c["kind"] for s, c in sorted(subs.items())}),
        "MCSubCap": Fn({s: c.get("cap", 1) for s, c in sorted(subs.items())}),
        "MCSubPol": Fn({s: c.get("pol", "block") for s, c in sorted(subs.items())}),
        "MCDefects": TSet(sorted(inst["defects"])),
    }
    lines = ["---- MODULE %s ----" % modname, "EXTENDS %s" % extends]
    for k, v in defs.items():
        lines.append("%s == %s" % (k, render(v)))
    lines.append(extra_defs)
    lines.append("====")
    return "\n".join(lines) + "\n"


def mc_cfg(inst, body):
    """body: the part after CONSTANTS (INIT/NEXT/INVARIANT/...)."""
    c = ["CONSTANTS",
         " Clients <- MCClients", " Programs <- MCPrograms", " Acts <- MCActs", " Kind <- MCKind",
         " Cap = %d" % inst["cap"], ' Pol = "%s"' % inst["pol"],
         " InitReducers <- MCInitReducers", " InitMws <- MCInitMws", " RedScript <- MCRedScript",
         " MwScript <- MCMwScript", " MwVerdicts <- MCMwVerdicts", " MwRemove <- MCMwRemove", " MwDisp <- MCMwDisp",
         " Subs <- MCSubs", " SubKind <- MCSubKind", " SubCap <- MCSubCap", " SubPol <- MCSubPol",
         " MaxTasks = %d" % inst["max_tasks"], " CbReads = %s" % ("TRUE" if inst["cb_reads"] else "FALSE"),
         " FineReg = %s" % ("TRUE" if inst.get("fine_reg") else "FALSE"),
         " StopTimeouts = %s" % ("TRUE" if inst.get("stop_timeouts") else "FALSE"),
         " Defects <- MCDefects"]
    return "\n".join(c) + "\n" + body + "\n"


# ----------------------------------------------------------------------------- harness side
def harness_config(inst):
    return {
        "cap": inst["cap"], "pol": inst["pol"], "name": "store",
        "init_reducers": inst["reducers"], "init_mws": inst["mws"],
        "red_script": {r: {str(k): e for k, e in t.items()} for r, t in inst["red_script"].items()},
        "mw_script": {m: {ph: {str(k): v for k, v in t2.items()} for ph, t2 in t.items()}
                      for m, t in inst["mw_script"].items()},
        "mw_remove": {m: {str(k): v for k, v in t.items()} for m, t in inst["mw_remove"].items()},
        "mw_disp": {m: {str(k): v for k, v in t.items()} for m, t in inst.get("mw_disp", {}).items()},
        "subs": inst["subs"],
        "kind": {str(a): k for a, k in inst["acts"].items()},
        "cb_reads": inst["cb_reads"],
        "fine_reg": bool(inst.get("fine_reg")),
        "slow_reduce_us": int(inst.get("slow_reduce_us", 0)),
        "slow_deliver_us": int(inst.get("slow_deliver_us", 0)),
        "slow_clone_us": int(inst.get("slow_clone_us", 0)),
        "slow_effect_us": int(inst.get("slow_effect_us", 0)),
        "mw_verdicts": list(inst.get("mw_verdicts") or []),
    }
