"""./check Cxx [--tier quick|thorough] [--replay FILE]

Decides one property: model checking of spec/RsStore.tla (+Props), replay of an edge cover of
TLC's state graph on the real crate, free runs of the real crate validated against spec/Trace.tla.
Exit 0: held on everything explored (known findings are printed as KNOWN-FINDING lines).
Exit 1: a line "VIOLATION property=<id> replay=<path>".  Exit 2: tool error / inconclusive."""
import argparse
import hashlib
import json
import os
import random
import shutil
import sys
import time

HERE = os.path.dirname(os.path.abspath(__file__))
ROOT = os.path.dirname(HERE)
sys.path.insert(0, HERE)

import cover  # noqa: E402
import families  # noqa: E402
import instances  # noqa: E402
import pipeline  # noqa: E402
import seqprops  # noqa: E402
import tlc  # noqa: E402
import tracecheck  # noqa: E402

RUNS = os.path.join(ROOT, "runs")
EVID = os.path.join(ROOT, "evidence")

# event kind -> properties whose mechanism it shows (DESIGN.md 4.6)
TAGS = {
    "op.end:dispatch": {"C04", "C06", "C02", "C15", "C18"},
    "op.end:get_state": {"C01", "C08", "C04", "C15", "C12"},
    "op.end:metrics": {"C18", "C06", "C05", "C12", "C11"},
    "op.end:next": {"C14"},
    "op.end:stop": {"C04", "C13", "C11", "C10", "C01"},      # C01: the state read after stop() returned is final
    "op.end:drop_store": {"C15", "C04", "C13"},
    "op.end:close": {"C04", "C13"},
    "op.end:unsub": {"C09", "C10", "C13"},
    "op.end:add_sub": {"C09", "C07", "C13", "C16"},      # C16: subscribe_with_selector is an add_sub in its instances
    "op.end:subscribed": {"C10", "C09", "C13"},
    "op.end:iter": {"C14", "C13"},
    "op.end:drop_iter": {"C14", "C13"},
    "op.end:add_reducer": {"C07", "C13"},
    "op.end:add_mw": {"C07", "C13"},
    "op.end:task": {"C11"},
    "op.end:thunk": {"C11"},
    "send.begin:D": {"C01", "C02", "C04", "C05", "C06", "C15", "C11"},
    "send.full:D": {"C06", "C05", "C18"},
    "send.pop:D": {"C06", "C18", "C02"},
    "send.end:D": {"C05", "C06", "C02", "C04", "C18"},
    "send.begin:sub": {"C10", "C14", "C03", "C09"},
    "send.full:sub": {"C10"},
    "send.pop:sub": {"C10"},
    "send.end:sub": {"C10", "C14"},
    # every scripted callback also records what get_state() returns inside it (C08)
    "cb:reduce": {"C01", "C02", "C07", "C12", "C05", "C06", "C11", "C08"},
    "cb:before_reduce": {"C12", "C07", "C02", "C08"},
    "cb:before_effect": {"C12", "C07", "C11", "C08"},
    "cb:before_dispatch": {"C12", "C07", "C03", "C08"},
    "cb:on_error": {"C12"},
    "cb:notify": {"C03", "C07", "C08", "C09", "C10", "C12"},
    "cb:change": {"C16", "C09", "C07"},
    "cb:unsub": {"C09", "C10", "C04"},
    "cb:effect": {"C11", "C12", "C08"},
    "cb:after": {"C11", "C02"},
    "loop.wait": {"C01", "C02", "C05", "C06", "C07", "C12", "C03", "C11", "C18"},
    "loop.wrote": {"C01", "C08", "C12", "C07", "C05"},      # C05: every accepted action is reduced (and its state written)
    "eff.spawn": {"C11", "C12", "C07", "C02"},      # C02: a follow-up action takes its place in the queue like any dispatch
    "loop.recv": {"C01", "C02", "C05", "C06", "C07"},
    "red.begin": {"C07", "C12"},
    "mw.check": {"C07", "C12"},
    "ntf.snap": {"C03", "C07", "C09", "C12", "C10", "C14"},
    "clear.begin": {"C04", "C09", "C13", "C15", "C06", "C05"},
    "loop.end": {"C04", "C09", "C13", "C15", "C10", "C14"},
    "task.start": {"C11", "C02"},
    "task.end": {"C11"},
    "ch.txlock": {"C10", "C09", "C13"},
    "ch.join": {"C10", "C09", "C13"},
    "chloop.wait": {"C10"},
    "chloop.exit": {"C10", "C09"},
    "iter.end": {"C14", "C13"},
    "iter.drop": {"C14", "C13"},
    "stop.pool": {"C04", "C15", "C13", "C11", "C01"},
    "stop.drain": {"C04", "C15", "C13", "C11", "C01"},
    "chfwd.begin": {"C10", "C09", "C03"},
    "sub.spawned": {"C10", "C09", "C13"},
    "stop.join": {"C04", "C15", "C13", "C11", "C01"},
    "stop.closed": {"C04", "C15", "C13", "C11", "C01"},
}


# blocked operation -> properties that rely on it waiting
PROBE_TAGS = {
    "send": {"C05", "C10", "C14", "C02", "C01"},
    "op:dispatch": {"C01", "C02", "C04", "C05", "C06", "C18"},
    "op:stop": {"C04", "C02"}, "op:close": {"C04", "C02"}, "op:drop_store": {"C15", "C04"},
    "join": {"C04", "C15", "C11", "C10"}, "stop.drain": {"C04", "C15", "C11"},
    "op:unsub": {"C09", "C10"}, "op:add_sub": {"C09", "C07"}, "op:subscribed": {"C10", "C09"}, "sub.reg": {"C10", "C09"}, "op:iter": {"C14"},
    "op:next": {"C14"}, "iter.end": {"C14"}, "iter.drop": {"C14"}, "chjoin": {"C10", "C09", "C04", "C15"}, "ctxdrop": {"C10", "C09"},
    "snap": {"C09", "C07", "C03"}, "clear": {"C09", "C04"}, "chfwd": {"C10"}, "w.start": {"C11", "C02"}, "w.cb": {"C11", "C02"},
    "op:add_reducer": {"C07"}, "op:add_mw": {"C07"}, "op:wait": set(),
}


def tags_of(ev):
    """properties an (expected or observed) event speaks about"""
    if not isinstance(ev, dict) or "ev" not in ev:
        return set()
    k = ev["ev"]
    d = ev.get("d")
    if k == "op.end" and isinstance(d, dict):
        return TAGS.get("op.end:" + str(d.get("op")), set())
    if k == "cb" and isinstance(d, dict):
        return TAGS.get("cb:" + str(d.get("what")), set())
    if k.startswith("send.") and isinstance(d, dict):
        return TAGS.get(k + (":D" if str(d.get("ch", "")).endswith("D") else ":sub"), set())
    return TAGS.get(k, set())


class Ctx:
    def __init__(self, pid, tier, seed):
        self.pid, self.tier, self.seed = pid, tier, seed
        self.t0 = time.time()
        self.states = 0
        self.transitions = 0
        self.traces = 0
        self.replayed = 0
        self.distinct = set()
        self.samples = []
        self.mc = []
        self.gens = []
        self.frees = []
        self.violations = []      # (what, replay path)
        self.known = []
        self.notes = []
        self.errors = []
        self.exhaustive_cover = True
        self.kf = json.load(open(os.path.join(ROOT, "known_findings.json")))

    def known_invariant(self, inv):
        for f in self.kf["findings"]:
            if inv in f.get("invariants", []) and self.pid in f["properties"]:
                return f
        return None

    def known_for(self, pred):
        for f in self.kf["findings"]:
            if self.pid in f["properties"] and pred(f):
                return f
        return None


def save_artifact(ctx, name, obj):
    os.makedirs(RUNS, exist_ok=True)
    p = os.path.join(RUNS, "%s_%s_%d_%s.json" % (ctx.pid, ctx.tier, ctx.seed, name))
    json.dump(obj, open(p, "w"), indent=1)
    return p


def counterexample_behaviour(trace):
    st = [s[1] for s in trace]
    return {"id": "cex", "prog": st[0]["prog"], "steps": [s["lbl"] for s in st[1:]], "end": "cut"}


def replay_behaviours(inst, behs, d, tag):
    doc = {"config": instances.harness_config(inst), "behaviours": behs}
    return pipeline.replay_doc(doc, d, tag=tag, timeout_ms=10000)


def classify_replay(ctx, inst, res, behs_by_id):
    """violations among replay results: (reason, result, behaviour)"""
    out = []
    for r in res:
        b = behs_by_id.get(r["id"])
        end = b.get("end") if b else None
        if r["outcome"] in ("diverged", "blocked", "error"):
            out.append((r["outcome"], r, b))
        elif end == "done" and r.get("tail") != "clean":
            out.append(("hangs where the model finishes", r, b))
        elif end == "clients" and r.get("tail") == "hung":
            out.append(("hangs where the model finishes", r, b))
        elif end == "deadlock" and r.get("tail") == "clean":
            out.append(("finishes where the model deadlocks", r, b))
    return out


def attribute(ctx, reason, r):
    """does this conformance failure speak about ctx.pid ?"""
    tg = tags_of(r.get("expected")) | tags_of(r.get("got") if isinstance(r.get("got"), dict) else None)
    e, g = r.get("expected"), r.get("got")
    if isinstance(e, dict) and isinstance(g, dict) and isinstance(e.get("d"), dict) and isinstance(g.get("d"), dict):
        if e["d"].get("rd") != g["d"].get("rd"):
            tg = tg | {"C08"}           # what get_state() returned inside the callback
        if e["d"].get("st") != g["d"].get("st"):
            tg = tg | {"C01", "C08", "C03"}
        if e.get("t") != g.get("t"):
            tg = tg | {"C07", "C10", "C11"}     # a callback on the wrong thread
    if isinstance(e, dict) and isinstance(g, dict) and e.get("notes") != g.get("notes"):
        # what happened silently before this event differs: a job handed to the pool (or not), an item taken
        kinds = {n.get("k") for n in (e.get("notes") or []) + (g.get("notes") or []) if isinstance(n, dict)}
        if kinds & {"submit", "skip"}:
            tg = tg | {"C11", "C02", "C12"}
        if "recv" in kinds:
            tg = tg | {"C01", "C02", "C05", "C06"}
        if "took" in kinds:
            tg = tg | {"C04", "C15", "C11"}
        if "chrecv" in kinds:
            tg = tg | {"C10"}
    if reason in ("blocked", "hangs where the model finishes", "finishes where the model deadlocks"):
        tg = tg | {"C13"}
    if isinstance(r.get("got"), str) and "unexpected thread" in r["got"]:
        tg = tg | {"C07", "C10", "C11"}
    return (ctx.pid in tg) or not tg, tg


def do_mc(ctx, inst, invs, props):
    d = tlc.workdir("mc_%s_%s" % (ctx.pid, inst["name"]))
    try:
        mod = "MC_" + inst["name"]
        with open(os.path.join(d, mod + ".tla"), "w") as f:
            f.write(instances.mc_module(inst, mod, extends="Props"))
        known = [i for i in invs if ctx.known_invariant(i)]
        normal = [i for i in invs if i not in known]
        body = "INIT Init\nNEXT Next\nCHECK_DEADLOCK FALSE\n" + "".join("INVARIANT %s\n" % i for i in normal) + \
               "".join("PROPERTY %s\n" % p for p in props)
        r = tlc.run(d, mod, instances.mc_cfg(inst, body), workers=12, timeout=3000 if ctx.tier != "quick" else 600)
        ctx.states += r.distinct
        ctx.transitions += r.generated
        ctx.mc.append({"instance": inst["name"], "distinct": r.distinct, "generated": r.generated, "depth": r.depth,
                       "invariants": normal, "properties": list(props), "wall_s": round(r.wall, 1),
                       "result": "ok" if r.ok else str(r.violation)})
        if not r.ok:
            if r.violation and r.violation[0] in ("invariant", "property", "deadlock") and r.trace:
                handle_cex(ctx, inst, r, d, r.violation[1] or "deadlock")
            else:
                ctx.errors.append("TLC on %s: %s\n%s" % (inst["name"], r.violation, r.out[-1500:]))
        for inv in known:
            f = ctx.known_invariant(inv)
            body = "INIT Init\nNEXT Next\nCHECK_DEADLOCK FALSE\nINVARIANT %s\n" % inv
            r = tlc.run(d, mod, instances.mc_cfg(inst, body), workers=12, timeout=600)
            ctx.states += r.distinct
            ctx.transitions += r.generated
            if r.ok:
                ctx.notes.append("known finding %s: %s holds on %s" % (f["id"], inv, inst["name"]))
            elif r.violation and r.violation[0] == "invariant" and r.trace:
                # demonstrate it on the real crate
                b = counterexample_behaviour(r.trace)
                res, path, tr = replay_behaviours(inst, [b], d, "known_" + inv)
                ok = res and res[0]["outcome"] == "followed"
                ctx.replayed += 1
                if ok:
                    ctx.known.append((f, "%s violated on %s; counterexample of %d steps followed by the real crate"
                                      % (inv, inst["name"], len(b["steps"]))))
                else:
                    ctx.notes.append("known finding %s: counterexample not followed by the crate: %s" % (f["id"], json.dumps(res)[:300]))
            else:
                ctx.errors.append("TLC on %s/%s: %s" % (inst["name"], inv, r.violation))
    finally:
        shutil.rmtree(d, ignore_errors=True)


def do_live(ctx, inst, props):
    """temporal properties under the fair specification (no state constraint)"""
    d = tlc.workdir("live_%s_%s" % (ctx.pid, inst["name"]))
    try:
        mod = "LV_" + inst["name"]
        with open(os.path.join(d, mod + ".tla"), "w") as f:
            f.write(instances.mc_module(inst, mod, extends="Props"))
        body = "SPECIFICATION Spec\nCHECK_DEADLOCK FALSE\n" + "".join("PROPERTY %s\n" % p for p in props)
        r = tlc.run(d, mod, instances.mc_cfg(inst, body), workers=8, timeout=1500 if ctx.tier != "quick" else 300)
        ctx.states += r.distinct
        ctx.transitions += r.generated
        ctx.mc.append({"instance": inst["name"], "distinct": r.distinct, "generated": r.generated, "liveness": list(props),
                       "wall_s": round(r.wall, 1), "result": "ok" if r.ok else str(r.violation)})
        if not r.ok:
            if r.violation and r.violation[0] == "property":
                art = save_artifact(ctx, "live_%s" % inst["name"], {"kind": "liveness counterexample", "instance": inst["name"],
                                                                     "properties": list(props), "tlc": r.out[-4000:]})
                ctx.violations.append(("a temporal property of %s is violated in the model of the current code of %s"
                                       % (list(props), inst["name"]), art))
            else:
                ctx.errors.append("TLC (liveness) on %s: %s\n%s" % (inst["name"], r.violation, r.out[-1500:]))
    finally:
        shutil.rmtree(d, ignore_errors=True)


def do_apalache(ctx):
    """unbounded capacity: the inductive invariant of spec/apalache/ChannelInd.tla (bound, conservation,
    DropOldest's retry always finds room) checked with Apalache for every Cap >= 1"""
    import subprocess
    src = os.path.join(ROOT, "spec", "apalache", "ChannelInd.tla")
    d = tlc.workdir("apalache")
    try:
        shutil.copy(src, d)
        res = []
        for init, length in (("Init", "0"), ("IndInit", "1")):
            try:
                p = subprocess.run(["apalache-mc", "check", "--cinit=ConstInit", "--init=" + init, "--inv=IndInv",
                                    "--length=" + length, "ChannelInd.tla"], cwd=d, stdout=subprocess.PIPE,
                                   stderr=subprocess.STDOUT, text=True, timeout=600)
                ok = "EXITCODE: OK" in p.stdout
                res.append({"init": init, "length": int(length), "ok": ok})
                if not ok:
                    ctx.errors.append("Apalache: IndInv is not inductive (%s):\n%s" % (init, p.stdout[-1500:]))
            except Exception as ex:  # noqa
                ctx.errors.append("Apalache could not be run: %r" % ex)
        ctx.apalache = res
    finally:
        shutil.rmtree(d, ignore_errors=True)


def handle_cex(ctx, inst, r, d, what):
    b = counterexample_behaviour(r.trace)
    res, path, tr = replay_behaviours(inst, [b], d, "cex")
    art = save_artifact(ctx, "cex_%s_%s" % (inst["name"], what),
                        {"kind": "tlc-counterexample", "violated": what, "instance": inst["name"],
                         "config": instances.harness_config(inst), "behaviours": [b], "replay_result": res})
    ctx.violations.append(("%s violated in the model of the current code (instance %s); replay on the crate: %s"
                           % (what, inst["name"], res[0]["outcome"] if res else "none"), art))


def do_gen(ctx, inst, limit):
    d = tlc.workdir("gen_%s_%s" % (ctx.pid, inst["name"]))
    try:
        _, r, g = pipeline.gen(inst, d=d, timeout=3000 if ctx.tier != "quick" else 600)
        if not r.ok:
            ctx.errors.append("TLC graph of %s: %s\n%s" % (inst["name"], r.violation, r.out[-1500:]))
            return
        behs, st = cover.behaviours(g)
        rnd = random.Random(ctx.seed)
        total = len(behs)
        if total > limit:
            behs = rnd.sample(behs, limit)
            ctx.exhaustive_cover = False
        jb = [cover.to_json(g, b, i) for i, b in enumerate(behs)]
        # blocked probes: a few states per kind of operation that must wait
        pr = cover.probes(g, per_kind=1 if ctx.tier == "quick" else 3, max_total=8 if ctx.tier == "quick" else 40)
        # a blocking send (one probe per channel, at most three) and a wait for a thread or the pool to finish
        # are watched for 1.5 s, everything else for 250 ms
        long_for = []
        for b in pr:
            w = b["probe"]["what"]
            if w.startswith("send:") and w not in long_for and len([x for x in long_for if x.startswith("send:")]) < 3:
                long_for.append(w)
            if w in ("chjoin", "join", "stop.drain") and w not in long_for:    # waits for a thread / the pool to finish
                long_for.append(w)
        seen_long = set()
        pj = []
        for i, b in enumerate(pr):
            w = b["probe"]["what"]
            ms = 250
            if w in long_for and w not in seen_long:
                seen_long.add(w)
                ms = 1500
                if w == "send:D" and ctx.pid in ("C01", "C05"):
                    ms = 3600      # longer than any of the library's own 3 s timeouts: this wait has none
            pj.append(cover.probe_json(g, b, "p%d" % i, ms))
        if pj:
            pres, ppath, ptr = replay_behaviours(inst, pj, d, "probes")
            ctx.replayed += len(pres)
            ctx.probes = getattr(ctx, "probes", 0) + sum(1 for x in pres if x.get("probe") == "waited")
            byp = {b["id"]: b for b in pj}
            for x in pres:
                if x["outcome"] == "probe_failed":
                    b = byp[x["id"]]
                    what = b["probe"]["what"]
                    tg = PROBE_TAGS.get(what.split(":")[0] if not what.startswith("op:") else what.split("/")[0], set()) | {"C13"}
                    art = save_artifact(ctx, "probe_%s_%s" % (inst["name"], x["id"]),
                                        {"kind": "blocked probe", "instance": inst["name"], "config": instances.harness_config(inst),
                                         "behaviours": [b], "result": x})
                    if ctx.pid in tg:
                        ctx.violations.append(("thread %s went on where it has to wait (%s) in a state of %s reached by replay; it arrived at %s"
                                               % (b["probe"]["t"], what, inst["name"], json.dumps(x.get("got"))[:200]), art))
                    else:
                        ctx.notes.append("blocked probe failed in %s (%s): attributed to %s" % (inst["name"], what, sorted(tg)))
        res, path, tr = replay_behaviours(inst, jb, d, "cover")
        byid = {b["id"]: b for b in jb}
        bad = classify_replay(ctx, inst, res, byid)
        ctx.replayed += len(res)
        for b in jb:
            ctx.distinct.add(hashlib.sha1(json.dumps(b["steps"], sort_keys=True).encode()).hexdigest())
        if jb and len(ctx.samples) < 3:
            b = jb[0]
            ctx.samples.append({"kind": "behaviour replayed on the crate", "instance": inst["name"], "prog": b["prog"],
                                "steps": [[s["t"], s["ev"]] for s in b["steps"]][:60], "end": b["end"]})
        ctx.gens.append({"instance": inst["name"], "graph_states": st["states"], "graph_edges": st["edges"],
                         "cover_behaviours": total, "replayed": len(res), "followed": sum(1 for x in res if x["outcome"] == "followed"),
                         "deadlock_ends_confirmed": sum(1 for x in res if byid.get(x["id"], {}).get("end") == "deadlock" and x.get("tail") == "hung"),
                         "wall_s": round(r.wall, 1)})
        ctx.states += r.distinct
        ctx.transitions += r.generated
        # the recorded traces of the followed replays are validated as well (sample)
        for reason, x, b in bad:
            mine, tg = attribute(ctx, reason, x)
            art = save_artifact(ctx, "replay_%s_%s" % (inst["name"], x["id"]),
                                {"kind": "replay", "reason": reason, "instance": inst["name"],
                                 "config": instances.harness_config(inst), "behaviours": [b], "result": x})
            if mine:
                ctx.violations.append(("replay %s at step %s of a behaviour of %s (expected %s, got %s)"
                                       % (reason, x.get("step"), inst["name"], json.dumps(x.get("expected"))[:160],
                                          json.dumps(x.get("got"))[:160]), art))
                break
            else:
                ctx.notes.append("conformance failure in %s attributed to %s, not to %s" % (inst["name"], sorted(tg), ctx.pid))
    finally:
        shutil.rmtree(d, ignore_errors=True)


def recorded_run(trace_path, run):
    """the events the harness recorded for one run of a free-run log (for the violation artefact)"""
    out, cur = [], None
    try:
        with open(trace_path) as f:
            for line in f:
                try:
                    e = json.loads(line)
                except ValueError:
                    continue
                if e.get("ev") == "reset":
                    cur = e["d"].get("id") if isinstance(e.get("d"), dict) else None
                if cur == run:
                    out.append(e)
    except OSError:
        pass
    return out[:3000]


def do_free(ctx, inst, reps):
    d = tlc.workdir("free_%s_%s" % (ctx.pid, inst["name"]))
    try:
        rnd = random.Random(ctx.seed * 7919 + len(ctx.frees))
        base = inst["programs"]
        # the instance's own programs for the first third of the runs, random variants of them afterwards
        progs = [base[i % len(base)] if i < max(1, reps // 3) else families.vary(base[i % len(base)], rnd)
                 for i in range(reps)]
        res, tr = pipeline.freerun(inst, progs, d, seed=ctx.seed)
        hung = [x for x in res if x["outcome"] != "finished"]
        slow = [x for x in res if x.get("stop_ms", 0) >= 2500]
        v = tracecheck.validate_parallel(inst, tr, d, timeout=3000 if ctx.tier != "quick" else 600)
        ctx.frees.append({"instance": inst["name"], "runs": len(res), "events": sum(x["events"] for x in res),
                          "accepted": v.get("accepted"), "validator_states": v.get("states"), "hung": len(hung)})
        if v.get("error"):
            ctx.errors.append("trace validation of %s failed: %s" % (inst["name"], v.get("out", "")[-1200:]))
            return
        if v.get("accepted"):
            ctx.traces += len(res) - len(hung)
        else:
            ev = v.get("event")
            mine = (ctx.pid in tags_of(ev)) or not tags_of(ev) or v.get("invariant") or \
                str(v.get("label_invariant", "")).startswith(ctx.pid)
            art = save_artifact(ctx, "free_%s" % inst["name"],
                                {"kind": "free-run trace rejected", "instance": inst["name"], "run": v.get("run"),
                                 "event": ev, "invariant": v.get("invariant"), "config": instances.harness_config(inst),
                                 "recorded": recorded_run(tr, v.get("run")),
                                 "runs": [{"id": v.get("run"), "prog": progs[v["run"]] if isinstance(v.get("run"), int) else None}]})
            if mine:
                ctx.violations.append(("recorded execution of %s %s at event %s"
                                       % (inst["name"], ("violates " + v["label_invariant"]) if v.get("label_invariant")
                                          else "cannot be explained by the specification", json.dumps(ev)[:300]), art))
            else:
                ctx.notes.append("trace of %s rejected at an event of %s" % (inst["name"], sorted(tags_of(ev))))
        if hung:
            art = save_artifact(ctx, "hang_%s" % inst["name"], {"kind": "free run hung", "instance": inst["name"],
                                                                 "config": instances.harness_config(inst),
                                                                 "runs": [{"id": hung[0]["id"], "prog": progs[hung[0]["index"]]}]})
            if ctx.pid in ("C13", "C04", "C15", "C14", "C10"):
                ctx.violations.append(("free run of %s did not finish" % inst["name"], art))
        if slow and not hung:
            ctx.notes.append("%d run(s) of %s had stop() >= 2.5 s (internal timeout): inconclusive for C04/C13" % (len(slow), inst["name"]))
            if ctx.pid in ("C13", "C04", "C15"):
                art = save_artifact(ctx, "slowstop_%s" % inst["name"], {"kind": "stop() hit its timeout", "instance": inst["name"],
                                                                        "config": instances.harness_config(inst),
                                                                        "runs": [{"id": slow[0]["id"], "prog": progs[slow[0]["index"]]}]})
                ctx.violations.append(("stop() of %s returned through its timeout" % inst["name"], art))
    finally:
        shutil.rmtree(d, ignore_errors=True)


def do_random_instances(ctx, n):
    """thorough tier: a few random instances (programs drawn from the public API under the properties'
    assumptions, tools/fuzz.py), different for every VERIF_SEED, through the same three uses"""
    import fuzz
    import zlib
    base = ctx.seed * 100000 + (zlib.crc32(ctx.pid.encode()) % 9973) * 10
    mine = [i for i in fuzz.INVARIANTS if i.startswith(ctx.pid + "_")] or \
           [i for i in fuzz.INVARIANTS if i.startswith({"C15": "C04", "C19": "C01"}.get(ctx.pid, "C01") + "_")]
    props = [p for p in fuzz.PROPERTIES if p.startswith(ctx.pid + "_")]
    done = 0
    k = 0
    while done < n and k < 3 * n:
        inst = fuzz.random_instance(base + k)
        k += 1
        d = tlc.workdir("rsz")
        try:
            mod = "MC_sz"
            with open(os.path.join(d, mod + ".tla"), "w") as f:
                f.write(instances.mc_module(inst, mod, extends="Props"))
            r = tlc.run(d, mod, instances.mc_cfg(inst, "INIT Init\nNEXT Next\nCHECK_DEADLOCK FALSE\n"), workers=12,
                        timeout=90, dump_trace=False)
        finally:
            shutil.rmtree(d, ignore_errors=True)
        if not r.ok or r.distinct > 150000:
            continue                      # too large for this budget: take the next one
        done += 1
        do_mc(ctx, inst, mine, props)
        if ctx.violations:
            return
        do_gen(ctx, inst, 300)
        if ctx.violations:
            return
        do_free(ctx, inst, 30)
        if ctx.violations:
            return
    ctx.random_instances = done


def write_evidence(ctx, extra=None):
    os.makedirs(EVID, exist_ok=True)
    cov = {
        "states": ctx.states, "transitions": ctx.transitions,
        "traces_validated_against_impl": ctx.traces + ctx.replayed,
        "samples": ctx.samples or [{"note": "no behaviour sampled"}],
        "evaluations": ctx.replayed + ctx.traces,
        "distinct_nontrivial": len(ctx.distinct),
        "rule": "behaviours = paths of TLC's state graph from an initial to a terminal state chosen to cover every edge "
                "(sampled by VERIF_SEED when the cover is larger than the tier's budget); distinct = distinct label "
                "sequences (sha1), all non-trivial because each contains at least one step of every client program; "
                "free runs are counted in traces_validated_against_impl but not in distinct_nontrivial",
        "exhaustive": bool(ctx.exhaustive_cover and ctx.gens),
        "model_checking": ctx.mc, "replay": ctx.gens, "free_runs": ctx.frees,
        "replayed_behaviours": ctx.replayed, "free_traces_accepted": ctx.traces,
        "blocked_probes_confirmed": getattr(ctx, "probes", 0),
        "apalache_inductive_invariant": getattr(ctx, "apalache", None),
        "random_instances": getattr(ctx, "random_instances", 0),
        "checker_cmd": "tlc (TLC2 2026.09.04) on spec/RsStore.tla + Props.tla / Gen.tla / Trace.tla, instances generated by tools/families.py",
        "known_findings_reported": [f["id"] for f, _ in ctx.known], "notes": ctx.notes[:20],
    }
    if extra:
        cov.update(extra)
    ev = {"property_id": ctx.pid, "tier": ctx.tier, "seed": ctx.seed, "level": "model_checking", "coverage": cov,
          "assumptions": [
              "TLC explores the instances of tools/families.py exhaustively; larger programs are only sampled by free runs",
              "the hook points of cfg(rs_store_verif) and the scripted callbacks are where the code is observed and gated",
              "OS mutexes, crossbeam channels and rusty_pool make progress (weak fairness in the model)"],
          "wall_s": round(time.time() - ctx.t0, 1), "violations": len(ctx.violations)}
    json.dump(ev, open(os.path.join(EVID, ctx.pid + ".json"), "w"), indent=1)


def finish(ctx, extra=None):
    write_evidence(ctx, extra)
    seen = set()
    for f, how in ctx.known:
        if f["id"] in seen:
            continue
        seen.add(f["id"])
        print("KNOWN-FINDING: property=%s %s [%s] (%s)" % (ctx.pid, f["what"], f["id"], how))
    for n in ctx.notes[:10]:
        print("note:", n)
    if ctx.violations:
        for what, art in ctx.violations[:5]:
            print("VIOLATION property=%s replay=%s" % (ctx.pid, art))
            print("  ", what)
        return 1
    if ctx.errors:
        for e in ctx.errors[:3]:
            print("TOOL-ERROR:", e, file=sys.stderr)
        return 2
    print("OK property=%s tier=%s states=%d replayed=%d free_traces=%d wall=%.0fs"
          % (ctx.pid, ctx.tier, ctx.states, ctx.replayed, ctx.traces, time.time() - ctx.t0))
    return 0


def replay_artifact(path):
    a = json.load(open(path))
    d = tlc.workdir("replay")
    try:
        if "behaviours" in a and a["behaviours"] and a["behaviours"][0]:
            res, p, tr = pipeline.replay_doc({"config": a["config"], "behaviours": a["behaviours"]}, d, tag="re")
            print(json.dumps(res, indent=1)[:4000])
            return 0 if all(r["outcome"] == "followed" for r in res) else 1
        if "runs" in a:
            print("free-run artefact: program", json.dumps(a["runs"])[:2000])
            return 0
        if "seq" in a:
            return seqprops.replay(a)
    finally:
        shutil.rmtree(d, ignore_errors=True)
    return 2


def main():
    ap = argparse.ArgumentParser()
    ap.add_argument("pid")
    ap.add_argument("--tier", default=os.environ.get("VERIF_TIER", "quick"))
    ap.add_argument("--replay")
    ap.add_argument("--only", default="mc,gen,free")
    a = ap.parse_args()
    seed = int(os.environ.get("VERIF_SEED", "1"))
    ok, out, dt = pipeline.build_harness()
    if not ok:
        print("TOOL-ERROR: harness build failed\n" + out[-3000:], file=sys.stderr)
        return 2
    if a.replay:
        return replay_artifact(a.replay)
    ctx = Ctx(a.pid, a.tier, seed)
    if a.pid in seqprops.PROPS:
        return seqprops.run(ctx, finish)
    T = families.table(a.pid, a.tier)
    only = a.only.split(",")
    if "mc" in only:
        for inst, invs, props in T["mc"]:
            do_mc(ctx, inst, invs, props)
    if "mc" in only and not ctx.violations:
        for inst, props in T["live"]:
            do_live(ctx, inst, props)
        if a.tier != "quick" and a.pid in ("C05", "C06"):
            do_apalache(ctx)
    if "gen" in only and not ctx.violations:
        for inst, limit in T["gen"]:
            do_gen(ctx, inst, limit)
    if "free" in only and not ctx.violations:
        for inst, reps in T["free"]:
            do_free(ctx, inst, reps)
    if a.tier != "quick" and not ctx.violations and "fuzz" not in os.environ.get("VERIF_SKIP", ""):
        do_random_instances(ctx, 6)
    return finish(ctx)


if __name__ == "__main__":
    sys.exit(main())
