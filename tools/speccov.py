"""Vacuity report: which lines of spec/RsStore.tla does TLC never evaluate in any quick instance?
usage: python3 tools/speccov.py [tier]   (runs TLC with -coverage 1 on every model-checking instance)"""
import os
import re
import shutil
import sys

HERE = os.path.dirname(os.path.abspath(__file__))
sys.path.insert(0, HERE)
import families  # noqa: E402
import instances  # noqa: E402
import tlc  # noqa: E402

tier = sys.argv[1] if len(sys.argv) > 1 else "quick"
cov = {}
seen = set()
pat = re.compile(r"line (\d+), col (\d+) to line (\d+), col (\d+) of module RsStore>?: (\d+)")
for pid in ["C%02d" % i for i in range(1, 19)] + ["C16x"]:
    if pid in ("C16", "C17"):
        continue
    T = families.table(pid if pid != "C16x" else "C09", tier)
    insts = [i for (i, _, _) in T["mc"]]
    if pid == "C16x":
        insts = [families.sel_store(tier), families.life(tier, "sel")]
    for inst in insts:
        if inst["name"] in seen:
            continue
        seen.add(inst["name"])
        d = tlc.workdir("cov")
        mod = "MC_c"
        open(os.path.join(d, mod + ".tla"), "w").write(instances.mc_module(inst, mod, extends="Props"))
        r = tlc.run(d, mod, instances.mc_cfg(inst, "INIT Init\nNEXT Next\nCHECK_DEADLOCK FALSE\n"), workers=8, timeout=900,
                    extra=["-coverage", "1"], dump_trace=False)
        for m in pat.finditer(r.out):
            l1, l2, c = int(m.group(1)), int(m.group(3)), int(m.group(5))
            for ln in range(l1, l2 + 1):
                cov[ln] = max(cov.get(ln, 0), c)
        shutil.rmtree(d, ignore_errors=True)
        print(inst["name"], r.distinct, "ok" if r.ok else r.violation, flush=True)
lines = open(os.path.join(tlc.SPEC_DIR, "RsStore.tla")).read().split("\n")
start = next(i for i, l in enumerate(lines) if l.startswith("StartSend("))
end = next(i for i, l in enumerate(lines) if l.startswith("RECURSIVE Run"))
print("\nlines of the interpreter (StartSend .. Micro) never evaluated with a non-zero count:")
n = 0
for i in range(start, end):
    ln = i + 1
    txt = lines[i]
    if not txt.strip() or txt.strip().startswith("\\*") or txt.strip().startswith("(*") or txt.startswith("---"):
        continue
    if cov.get(ln, 0) == 0 and ("->" in txt or "THEN" in txt or "ELSE" in txt or "Park(" in txt or "Goto(" in txt):
        print("%4d  %s" % (ln, txt[:130]))
        n += 1
print("uncovered branch lines:", n)
