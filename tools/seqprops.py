"""Properties decided with their own small specifications: C16 (Selector.tla), C17 (Builder.tla),
C19 (two stores: per-store projections of two-store executions validated against RsStore)."""
import json
import os
import re
import shutil
import subprocess

import families
import tlc

ROOT = os.path.dirname(os.path.dirname(os.path.abspath(__file__)))
SEQLIB = os.path.join(ROOT, "harness", "target", "release", "seqlib")

_seq = re.compile(r'^<<"SEQ", "(.*)">>$')


def run_small(d, module, cfg, workers=8, timeout=900):
    """model-check a self-contained module and collect the lines it prints"""
    r = tlc.run(d, module, cfg, workers=workers, timeout=timeout, dump_trace=True)
    seqs = []
    for line in r.out.splitlines():
        m = _seq.match(line)
        if m:
            seqs.append(json.loads(json.loads('"' + m.group(1) + '"')))
    return r, seqs


def seqlib(mode, doc, d):
    p = os.path.join(d, mode + ".json")
    json.dump(doc, open(p, "w"))
    out = subprocess.run([SEQLIB, mode, p], stdout=subprocess.PIPE, stderr=subprocess.PIPE, text=True, timeout=1800)
    for line in out.stdout.splitlines():
        if line.startswith("{"):
            return json.loads(line), p
    return {"error": "seqlib produced no result: " + out.stderr[-500:]}, p


# ------------------------------------------------------------------------------------------ C16

def c16(ctx, finish):
    import checkmain
    q = ctx.tier == "quick"
    d = tlc.workdir("c16")
    try:
        maxlen = 6 if q else 9
        cfg = ("CONSTANTS\n Vals = {1, 2, 3}\n MaxLen = %d\nINIT Init\nNEXT Next\nCHECK_DEADLOCK FALSE\n"
               "INVARIANT C16_Dedup\nINVARIANT C16_FirstAlways\nINVARIANT C16_NoRepeat\nINVARIANT EmitEnd\n" % maxlen)
        r, seqs = run_small(d, "Selector", cfg)
        ctx.states += r.distinct
        ctx.transitions += r.generated
        ctx.mc.append({"instance": "Selector(Vals=3,MaxLen=%d)" % maxlen, "distinct": r.distinct, "generated": r.generated,
                       "invariants": ["C16_Dedup", "C16_FirstAlways", "C16_NoRepeat"], "result": "ok" if r.ok else str(r.violation)})
        if not r.ok:
            if r.violation and r.violation[0] == "invariant":
                art = checkmain.save_artifact(ctx, "selector_model", {"kind": "tlc-counterexample", "violated": r.violation[1], "seq": True})
                ctx.violations.append(("%s violated in Selector.tla" % r.violation[1], art))
            else:
                ctx.errors.append("TLC on Selector: %s\n%s" % (r.violation, r.out[-1500:]))
            return finish(ctx)
        res, path = seqlib("selector", {"seqs": seqs}, d)
        if res.get("error"):
            ctx.errors.append(res["error"])
        else:
            ctx.replayed += res["checked"]
            for s in seqs:
                ctx.distinct.add(json.dumps(s["inp"]))
            ctx.samples.append({"kind": "input sequence fed to a real SelectorSubscriber", "inp": seqs[len(seqs) // 2]["inp"],
                                "expected_callbacks": seqs[len(seqs) // 2]["out"]})
            ctx.gens.append({"instance": "Selector", "sequences": len(seqs), "replayed": res["checked"], "exhaustive": True})
            if res.get("mismatch"):
                art = checkmain.save_artifact(ctx, "selector", {"kind": "selector sequence", "seq": "selector",
                                                                "seqs": [{"inp": res["mismatch"]["inp"],
                                                                          "out": [s for s in seqs if s["inp"] == res["mismatch"]["inp"]][0]["out"]}],
                                                                "mismatch": res["mismatch"]})
                ctx.violations.append(("SelectorSubscriber deviates from Selector.tla on input %s after action %s: expected %s, got %s"
                                       % (res["mismatch"]["inp"], res["mismatch"]["after"], res["mismatch"]["expected"],
                                          res["mismatch"]["got"]), art))
        # two notifiers of one subscriber object (SelectorConc.tla): notifications are serialised
        if not ctx.violations and not ctx.errors:
            cfg2 = ("CONSTANTS\n Vals = {1, 2, 3}\n Callers = {1, 2}\nINIT Init\nNEXT Next\nCHECK_DEADLOCK FALSE\n"
                    "INVARIANT C16_Serial\nINVARIANT C16_ConcDedup\nINVARIANT C16_CacheIsLastDelivered\nINVARIANT EmitEnd\n")
            r2, sc = run_small(d, "SelectorConc", cfg2)
            ctx.states += r2.distinct
            ctx.transitions += r2.generated
            ctx.mc.append({"instance": "SelectorConc(Vals=3,Callers=2)", "distinct": r2.distinct, "generated": r2.generated,
                           "invariants": ["C16_Serial", "C16_ConcDedup", "C16_CacheIsLastDelivered"],
                           "result": "ok" if r2.ok else str(r2.violation)})
            if not r2.ok:
                if r2.violation and r2.violation[0] == "invariant":
                    art = checkmain.save_artifact(ctx, "selconc_model", {"kind": "tlc-counterexample", "violated": r2.violation[1], "seq": True})
                    ctx.violations.append(("%s violated in SelectorConc.tla" % r2.violation[1], art))
                else:
                    ctx.errors.append("TLC on SelectorConc: %s\n%s" % (r2.violation, r2.out[-1500:]))
                return finish(ctx)
            uniq = {json.dumps(x, sort_keys=True): x for x in sc}
            sc = [uniq[k] for k in sorted(uniq)]
            res, path = seqlib("selconc", {"seqs": sc}, d)
            if res.get("error"):
                ctx.errors.append(res["error"])
            else:
                ctx.replayed += res["checked"]
                ctx.gens.append({"instance": "SelectorConc", "sequences": len(sc), "replayed": res["checked"],
                                 "second_notifier_seen_waiting": res.get("waited", 0), "exhaustive": True})
                if res.get("mismatch"):
                    mm = res["mismatch"]
                    art = checkmain.save_artifact(ctx, "selconc", {"kind": "selector sequence", "seq": "selconc",
                                                                   "seqs": [x for x in sc if x["prior"] == mm["prior"] and x["order"] == mm["order"]],
                                                                   "mismatch": mm})
                    ctx.violations.append(("SelectorSubscriber with two concurrent notifiers deviates from SelectorConc.tla "
                                           "(cache %s, notifications %s): %s: expected callbacks %s, got %s"
                                           % (mm["prior"], mm["order"], mm["what"], mm["expected"], mm["got"]), art))
    finally:
        shutil.rmtree(d, ignore_errors=True)
    # the same through a running store
    if not ctx.violations:
        inst = families.sel_store(ctx.tier)
        checkmain.do_mc(ctx, inst, ["C16_Store", "C03_StateAndOrder"], [])
        if not ctx.violations:
            checkmain.do_gen(ctx, inst, 1200 if q else 15000)
        if not ctx.violations:      # a selector subscription unsubscribed while notifications are in flight
            inst2 = families.life(ctx.tier, "sel")
            checkmain.do_mc(ctx, inst2, ["C16_Store", "C09_SilentAfter"], [])
            if not ctx.violations:
                checkmain.do_gen(ctx, inst2, 800 if q else 15000)
        if not ctx.violations:
            checkmain.do_free(ctx, families.sel_store(ctx.tier, big=True), 100 if q else 1000)
    return finish(ctx, {"exhaustive": True})


# ------------------------------------------------------------------------------------------ C17

def c17(ctx, finish):
    import checkmain
    q = ctx.tier == "quick"
    d = tlc.workdir("c17")
    try:
        maxlen = 3 if q else 4
        defects = [x for x in families.open_defects() if x == "F1"]
        invs = ["C17_Valid", "C17_Independent", "C17_LastWins", "C17_Append", "C17_Record"]
        known = [i for i in invs if ctx.known_invariant(i)]
        normal = [i for i in invs if i not in known]
        head = "CONSTANTS\n MaxLen = %d\n Defects = {%s}\nINIT Init\nNEXT Next\nCHECK_DEADLOCK FALSE\n" % (
            maxlen, ", ".join('"%s"' % x for x in defects))
        cfg = head + "".join("INVARIANT %s\n" % i for i in normal) + "INVARIANT Emit\n"
        r, seqs = run_small(d, "Builder", cfg, workers=1 if q else 4)
        ctx.states += r.distinct
        ctx.transitions += r.generated
        ctx.mc.append({"instance": "Builder(MaxLen=%d)" % maxlen, "distinct": r.distinct, "generated": r.generated,
                       "invariants": normal, "result": "ok" if r.ok else str(r.violation)})
        if not r.ok:
            if r.violation and r.violation[0] == "invariant":
                art = checkmain.save_artifact(ctx, "builder_model", {"kind": "tlc-counterexample", "violated": r.violation[1],
                                                                     "trace": r.trace})
                ctx.violations.append(("%s violated in Builder.tla (the model of the current builder.rs)" % r.violation[1], art))
            else:
                ctx.errors.append("TLC on Builder: %s\n%s" % (r.violation, r.out[-1500:]))
            return finish(ctx)
        for inv in known:
            f = ctx.known_invariant(inv)
            r2, _ = run_small(d, "Builder", head + "INVARIANT %s\n" % inv, workers=4)
            ctx.states += r2.distinct
            ctx.transitions += r2.generated
            if r2.violation and r2.violation[0] == "invariant":
                ctx.known.append((f, "%s violated in Builder.tla, which the real StoreBuilder follows call by call (below)" % inv))
            elif r2.ok:
                ctx.notes.append("known finding %s: %s holds" % (f["id"], inv))
        # every sequence on the real StoreBuilder, with probes of the built store
        res, path = seqlib("builder", {"seqs": seqs, "policy_probe_every": 12 if q else 4}, d)
        if res.get("error"):
            ctx.errors.append(res["error"])
        else:
            ctx.replayed += res["checked"]
            for s in seqs:
                ctx.distinct.add(json.dumps([s.get("start"), s["seq"]]))
            mid = seqs[len(seqs) // 2]
            ctx.samples.append({"kind": "builder call sequence executed on a real StoreBuilder",
                                "calls": [[c["m"], c["n"], c["s"], c["l"]] for c in mid["seq"]], "expected_settings": mid["cfg"],
                                "expected_build_ok": mid["ok"]})
            ctx.gens.append({"instance": "Builder", "sequences": len(seqs), "replayed": res["checked"],
                             "policy_probes": res.get("probed"), "exhaustive": True})
            if res.get("mismatch"):
                mm = res["mismatch"]
                bad = [s for s in seqs if s["seq"] == mm["seq"]][:2]
                art = checkmain.save_artifact(ctx, "builder", {"kind": "builder sequence", "seq": "builder", "seqs": bad, "mismatch": mm})
                ctx.violations.append(("StoreBuilder deviates from Builder.tla after %s: %s: expected settings %s, got %s"
                                       % ([c["m"] for c in mm["seq"]], mm["what"], json.dumps(mm["expected"]), json.dumps(mm["got"])), art))
    finally:
        shutil.rmtree(d, ignore_errors=True)
    return finish(ctx, {"exhaustive": True})


# ------------------------------------------------------------------------------------------ C19

TWO = os.path.join(ROOT, "harness", "target", "release", "twostores")


def _strip(x, pre):
    return x[len(pre):] if isinstance(x, str) and x.startswith(pre) else x


def project(trace_path, key, out_path):
    """the events of store `key` ("A"/"B") of a two-store log, renamed as if it were the only store.
    A thread of the *other* store that calls into this one (a subscriber forwarding actions) is a
    client of this store: it is renamed x<OTHER> and its program is what its "xop" records say."""
    pre = key + "."
    runs = []
    cur = None
    for line in open(trace_path):
        e = json.loads(line)
        if e["ev"] == "reset":
            cur = {"reset": e, "events": []}
            runs.append(cur)
        else:
            cur["events"].append(e)
    n = 0
    with open(out_path, "w") as out:
        for r in runs:
            e = r["reset"]
            prog = {c: [{k: v for k, v in o.items() if k != "st"} for o in ops if o.get("st") == key]
                    for c, ops in e["d"]["prog"].items()}
            body = []
            for x in r["events"]:
                if x["ev"] in ("start", "prog.end") or x.get("st") != pre:
                    continue
                t = x["t"]
                if "." in t and not t.startswith(pre):          # a thread of another store acting here
                    t = "x" + t.split(".")[0]
                    if x["ev"] == "xop":
                        prog.setdefault(t, []).append(x["d"])
                        continue
                else:
                    t = _strip(t, pre)
                x = dict(x)
                x.pop("st", None)
                x["t"] = t
                if isinstance(x["d"], dict):
                    x["d"] = dict(x["d"])
                    if "ch" in x["d"]:
                        x["d"]["ch"] = _strip(x["d"]["ch"], pre)
                    if "who" in x["d"]:
                        x["d"]["who"] = _strip(x["d"]["who"], pre)
                body.append(x)
            hdr = {"seq": 0, "t": "-", "ev": "reset", "d": {"id": e["d"]["id"], "prog": prog, "mode": "free"}, "notes": [], "ans": "-"}
            out.write(json.dumps(hdr) + "\n")
            for x in body:
                out.write(json.dumps(x) + "\n")
                n += 1
    return n


def two_store_programs(tier):
    from instances import D, O, S
    def on(st, ops):
        return [dict(o, st=st) for o in ops]
    P = []
    # producers on both stores, A is stopped while B is busy, B goes on
    P.append({"c1": on("A", [D(1), D(2, "trait")]) + on("B", [D(3)]),
              "c2": on("B", [D(1, "trait"), D(2)]) + on("A", [D(3)]),
              "c3": on("A", [O("stop"), O("get_state"), O("metrics")]) + on("B", [D(4), O("stop"), O("get_state"), O("metrics")])})
    # one subscriber object registered in both stores; the droppable handle of A is dropped while B works
    sh = dict(S("add_sub", "x1"), via="shared")
    P.append({"c1": on("A", [sh, D(1), D(2)]) + on("B", [sh, D(1)]) + on("A", [O("drop_store"), O("get_state")]),
              "c2": on("B", [D(2, "trait"), D(3)]),
              "c3": on("B", [S("subscribed", "s2")]) + on("A", [S("subscribed", "s2"), D(3, "trait")]) + on("B", [D(4), O("stop"), O("get_state"), O("metrics")])})
    # a subscriber of A forwards every notification to B as a new action (A's reducer thread is a client of B)
    fw = dict(S("add_sub", "f1"), via="fwd:B")
    P.append({"c1": on("A", [fw, D(1), D(2), D(3, "trait")]),
              "c2": on("B", [D(1, "trait"), D(2), D(3)]),
              "c3": on("A", [O("stop"), O("get_state"), O("metrics")]) + on("B", [O("stop"), O("get_state"), O("metrics")])})
    return P


def held_reducer_program():
    """A's reducer is held up inside reduce() (script "G": raises "in", waits for "go") while a client
    registers a reducer in B at run time and B goes on working; only then is A let go"""
    from instances import D, O, S
    def on(st, ops):
        return [dict(o, st=st) for o in ops]
    return {"c1": on("A", [D(5), O("stop"), O("get_state"), O("metrics")]),
            "c2": on("A", [S("wait", "in")]) + on("B", [S("add_reducer", "r2"), D(1), D(2, "trait")]) +
                  on("A", [S("signal", "go")]) + on("B", [O("stop"), O("get_state"), O("metrics")])}


def default_capacity_program():
    """A (built first, default capacity) uses subscribed(), whose channel has the library's default capacity
    whatever other stores were built meanwhile; B has capacity 1"""
    from instances import D, O, S
    def on(st, ops):
        return [dict(o, st=st) for o in ops]
    return {"c1": on("A", [dict(S("subscribed", "s2"), via="default"), D(1), D(2), D(3, "trait")]),
            "c2": on("B", [D(1, "trait"), D(2)]),
            "c3": on("A", [O("stop"), O("get_state"), O("metrics")]) + on("B", [O("stop"), O("get_state"), O("metrics")])}


def c19(ctx, finish):
    import checkmain
    import instances
    import pipeline
    import tracecheck
    q = ctx.tier == "quick"
    # (1) the composition of two copies of the specification
    d = tlc.workdir("c19")
    try:
        from instances import D, O
        inst = families._i("two", [{"c1": [D(1, "impl"), O("stop")], "c2": [D(2, "trait")]}], {1: 0, 2: 1}, cap=1)
        with open(os.path.join(d, "MC_two.tla"), "w") as f:
            f.write(instances.mc_module(inst, "MC_two", extends="TwoStores"))
        body = "SPECIFICATION Spec2\nCHECK_DEADLOCK FALSE\nINVARIANT InvA\nINVARIANT InvB\nPROPERTY RefinesA\nPROPERTY RefinesB\n"
        r = tlc.run(d, "MC_two", instances.mc_cfg(inst, body), workers=12, timeout=900)
        ctx.states += r.distinct
        ctx.transitions += r.generated
        ctx.mc.append({"instance": "TwoStores(two)", "distinct": r.distinct, "generated": r.generated,
                       "properties": ["RefinesA", "RefinesB", "InvA", "InvB"], "result": "ok" if r.ok else str(r.violation)})
        if not r.ok:
            ctx.errors.append("TLC on TwoStores: %s\n%s" % (r.violation, r.out[-1200:]))
            return finish(ctx)
        # (2) two real stores in one process; every store's half of the log must be a behaviour of RsStore
        acts = {1: 0, 2: 1, 3: 0, 4: 1, 11: 0, 12: 0, 13: 0}
        subs = {"x1": {"kind": "direct"}, "f1": {"kind": "direct"}, "s2": {"kind": "chan", "cap": 1, "pol": "block"}}
        variants = [("block", 2, "block", 1), ("oldest", 1, "block", 2)] if q else \
                   [("block", 2, "block", 2), ("oldest", 1, "block", 2), ("latest", 1, "oldest", 1), ("block", 1, "latest", 2)]
        acts[5] = 2
        variants.append(("block", 2, "block", 2, "held"))
        variants.append(("block", 16, "block", 1, "defcap"))
        reps = 60 if q else 400
        for vi, var in enumerate(variants):
            pa, ca, pb, cb = var[:4]
            held = len(var) > 4 and var[4] == "held"   # run-time registration in one store while the other's reducer is held up
            defcap = len(var) > 4 and var[4] == "defcap"
            progs = [held_reducer_program()] if held else [default_capacity_program()] if defcap else two_store_programs(ctx.tier)
            mk = lambda name, pol, cap: families._i(name, [{"c1": [], "c2": [], "c3": []}], acts, cap=cap, pol=pol, subs=subs,
                                                    red_script={"r1": {0: instances.red("D"), 1: instances.red("D", instances.eff("task")),
                                                                       2: instances.red("G")},
                                                                "r2": {0: instances.red("D"), 1: instances.red("D"), 2: instances.red("D")}},
                                                    max_tasks=4, cb_reads=False, kinds=(0, 1, 2), fine_reg=held)
            ia, ib = mk("twoA%d" % vi, pa, ca), mk("twoB%d" % vi, pb, cb)
            if defcap:
                ia["subs"] = dict(ia["subs"], s2={"kind": "chan", "cap": 16, "pol": "block"})
            ca_, cb_ = instances.harness_config(ia), instances.harness_config(ib)
            if vi % 2 == 0:       # two stores with the same, non-default name
                ca_["name"] = cb_["name"] = "session"
            doc = {"configs": {"A": ca_, "B": cb_},
                   "runs": [{"id": i, "prog": progs[i % len(progs)]} for i in range(reps if not (held or defcap) else max(10, reps // 4))]}
            path = os.path.join(d, "two%d.json" % vi)
            json.dump(doc, open(path, "w"))
            tr = os.path.join(d, "two%d.trace.ndjson" % vi)
            out = subprocess.run([TWO, path, "--trace", tr, "--seed", str(ctx.seed)], stdout=subprocess.PIPE,
                                 stderr=subprocess.PIPE, text=True, timeout=1200)
            res = [json.loads(l) for l in out.stdout.splitlines() if l.startswith("{")]
            hung = [x for x in res if x["outcome"] != "finished"]
            if hung or out.returncode != 0:
                art = checkmain.save_artifact(ctx, "two_hang_%d" % vi, {"kind": "two-store run hung", "configs": doc["configs"],
                                                                        "runs": [doc["runs"][hung[0]["index"]]] if hung else []})
                ctx.violations.append(("a run with two stores did not finish", art))
                break
            for key, ix in (("A", ia), ("B", ib)):
                proj = os.path.join(d, "two%d.%s.ndjson" % (vi, key))
                project(tr, key, proj)
                v = tracecheck.validate(ix, proj, tlc.workdir("c19v"), clients=["c1", "c2", "c3", "xA", "xB"],
                                        timeout=600 if q else 3000)
                ctx.frees.append({"instance": ix["name"], "store": key, "runs": len(res), "accepted": v.get("accepted"),
                                  "validator_states": v.get("states")})
                if v.get("error"):
                    ctx.errors.append("validation of store %s failed: %s" % (key, v.get("out", "")[-800:]))
                elif v.get("accepted"):
                    ctx.traces += len(res)
                else:
                    # Is this about two stores at all?  Run the same store with the same programs alone: if its
                    # log cannot be explained either, the deviation is a single-store matter (some other property).
                    alone = None
                    try:
                        first = json.loads(open(proj).readline())
                        runs_proj = [json.loads(l) for l in open(proj) if '"reset"' in l]
                        bad_prog = None
                        for rr_ in runs_proj:
                            if rr_["d"]["id"] == v.get("run"):
                                bad_prog = rr_["d"]["prog"]
                        if bad_prog is not None:
                            ix1 = dict(ix)
                            d1 = tlc.workdir("c19alone")
                            fr1, tr1 = pipeline.freerun(ix1, [bad_prog] * 60, d1, seed=ctx.seed)
                            v1 = tracecheck.validate(ix1, tr1, d1, clients=["c1", "c2", "c3", "xA", "xB"], timeout=600)
                            alone = bool(v1.get("accepted")) and all(x["outcome"] == "finished" for x in fr1)
                            shutil.rmtree(d1, ignore_errors=True)
                    except Exception as ex:  # noqa
                        ctx.notes.append("single-store control run failed: %r" % ex)
                    if alone is False:
                        ctx.notes.append("store %s deviates from the specification also when it runs alone: not a matter of "
                                         "independence (C19); event %s" % (key, json.dumps(v.get("event"))[:160]))
                        continue
                    art = checkmain.save_artifact(ctx, "two_%d_%s" % (vi, key),
                                                  {"kind": "two-store run: the events of one store are not a behaviour of a store",
                                                   "store": key, "event": v.get("event"), "configs": doc["configs"],
                                                   "recorded": checkmain.recorded_run(proj, v.get("run")),
                                                   "recorded_both_stores": checkmain.recorded_run(tr, v.get("run")),
                                                   "runs": [doc["runs"][v["run"]]] if isinstance(v.get("run"), int) else []})
                    ctx.violations.append(("in a process with two stores, the events of store %s cannot be explained by the "
                                           "specification of one store alone, at %s" % (key, json.dumps(v.get("event"))[:250]), art))
                    break
            if ctx.violations:
                break
            for r_ in doc["runs"][:2]:
                ctx.distinct.add(json.dumps(r_["prog"], sort_keys=True) + str(vi))
            if len(ctx.samples) < 2:
                ctx.samples.append({"kind": "two-store program run on OS threads, each store's events validated separately",
                                    "policies": [pa, pb], "prog": progs[0]})
    finally:
        shutil.rmtree(d, ignore_errors=True)
        for x in os.listdir(tlc.WORK):
            if x.startswith("c19v"):
                shutil.rmtree(os.path.join(tlc.WORK, x), ignore_errors=True)
    return finish(ctx)


PROPS = {"C16": c16, "C17": c17, "C19": c19}


def run(ctx, finish):
    return PROPS[ctx.pid](ctx, finish)


def replay(a):
    d = tlc.workdir("seqreplay")
    try:
        if a.get("seq") == "selector":
            res, p = seqlib("selector", {"seqs": a["seqs"]}, d)
            print(json.dumps(res))
            return 0 if not res.get("mismatch") and not res.get("error") else 1
        if a.get("seq") == "selconc":
            res, p = seqlib("selconc", {"seqs": a["seqs"]}, d)
            print(json.dumps(res))
            return 0 if not res.get("mismatch") and not res.get("error") else 1
        if a.get("seq") == "builder":
            res, p = seqlib("builder", {"seqs": a["seqs"]}, d)
            print(json.dumps(res))
            return 0 if not res.get("mismatch") and not res.get("error") else 1
    finally:
        shutil.rmtree(d, ignore_errors=True)
    return 2
