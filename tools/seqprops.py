"""Properties decided with their own small specifications: C16 (Selector.tla), C17 (Builder.tla),
C19 (two stores: per-store projections of two-store executions validated against RsStore)."""
import json
import os
import re
import shutil
import subprocess

import families
import tlc

ROOT = os.path.dirname(os.path.dirname(os.path.abspath(__file__)))
SEQLIB = os.path.join(ROOT, "harness", "target", "release", "seqlib")

_seq = re.compile(r'^<<"SEQ", "(.*)">>$')


def run_small(d, module, cfg, workers=8, timeout=900):
    """model-check a self-contained module and collect the lines it prints"""
    r = tlc.run(d, module, cfg, workers=workers, timeout=timeout, dump_trace=True)
    seqs = []
    for line in r.out.splitlines():
        m = _seq.match(line)
        if m:
            seqs.append(json.loads(json.loads('"' + m.group(1) + '"')))
    return r, seqs


def seqlib(mode, doc, d):
    p = os.path.join(d, mode + ".json")
    json.dump(doc, open(p, "w"))
    out = subprocess.run([SEQLIB, mode, p], stdout=subprocess.PIPE, stderr=subprocess.PIPE, text=True, timeout=1800)
    for line in out.stdout.splitlines():
        if line.startswith("{"):
            return json.loads(line), p
    return {"error": "seqlib produced no result: " + out.stderr[-500:]}, p


# ------------------------------------------------------------------------------------------ C16

def c16(ctx, finish):
    import checkmain
    q = ctx.tier == "quick"
    d = tlc.workdir("c16")
    try:
        maxlen = 6 if q else 9
        cfg = ("CONSTANTS\n Vals = {1, 2, 3}\n MaxLen = %d\nINIT Init\nNEXT Next\nCHECK_DEADLOCK FALSE\n"
               "INVARIANT C16_Dedup\nINVARIANT C16_FirstAlways\nINVARIANT C16_NoRepeat\nINVARIANT EmitEnd\n" % maxlen)
        r, seqs = run_small(d, "Selector", cfg)
        ctx.states += r.distinct
        ctx.transitions += r.generated
        ctx.mc.append({"instance": "Selector(Vals=3,MaxLen=%d)" % maxlen, "distinct": r.distinct, "generated": r.generated,
                       "invariants": ["C16_Dedup", "C16_FirstAlways", "C16_NoRepeat"], "result": "ok" if r.ok else str(r.violation)})
        if not r.ok:
            if r.violation and r.violation[0] == "invariant":
                art = checkmain.save_artifact(ctx, "selector_model", {"kind": "tlc-counterexample", "violated": r.violation[1], "seq": True})
                ctx.violations.append(("%s violated in Selector.tla" % r.violation[1], art))
            else:
                ctx.errors.append("TLC on Selector: %s\n%s" % (r.violation, r.out[-1500:]))
            return finish(ctx)
        res, path = seqlib("selector", {"seqs": seqs}, d)
        if res.get("error"):
            ctx.errors.append(res["error"])
        else:
            ctx.replayed += res["checked"]
            for s in seqs:
                ctx.distinct.add(json.dumps(s["inp"]))
            ctx.samples.append({"kind": "input sequence fed to a real SelectorSubscriber", "inp": seqs[len(seqs) // 2]["inp"],
                                "expected_callbacks": seqs[len(seqs) // 2]["out"]})
            ctx.gens.append({"instance": "Selector", "sequences": len(seqs), "replayed": res["checked"], "exhaustive": True})
            if res.get("mismatch"):
                art = checkmain.save_artifact(ctx, "selector", {"kind": "selector sequence", "seq": "selector",
                                                                "seqs": [{"inp": res["mismatch"]["inp"],
                                                                          "out": [s for s in seqs if s["inp"] == res["mismatch"]["inp"]][0]["out"]}],
                                                                "mismatch": res["mismatch"]})
                ctx.violations.append(("SelectorSubscriber deviates from Selector.tla on input %s after action %s: expected %s, got %s"
                                       % (res["mismatch"]["inp"], res["mismatch"]["after"], res["mismatch"]["expected"],
                                          res["mismatch"]["got"]), art))
    finally:
        shutil.rmtree(d, ignore_errors=True)
    # the same through a running store
    if not ctx.violations:
        inst = families.sel_store(ctx.tier)
        checkmain.do_mc(ctx, inst, ["C16_Store", "C03_StateAndOrder"], [])
        if not ctx.violations:
            checkmain.do_gen(ctx, inst, 1200 if q else 15000)
        if not ctx.violations:      # a selector subscription unsubscribed while notifications are in flight
            inst2 = families.life(ctx.tier, "sel")
            checkmain.do_mc(ctx, inst2, ["C16_Store", "C09_SilentAfter"], [])
            if not ctx.violations:
                checkmain.do_gen(ctx, inst2, 800 if q else 15000)
        if not ctx.violations:
            checkmain.do_free(ctx, families.sel_store(ctx.tier, big=True), 100 if q else 1000)
    return finish(ctx, {"exhaustive": True})


# ------------------------------------------------------------------------------------------ C17

def c17(ctx, finish):
    import checkmain
    q = ctx.tier == "quick"
    d = tlc.workdir("c17")
    try:
        maxlen = 3 if q else 4
        defects = [x for x in families.open_defects() if x == "F1"]
        invs = ["C17_Valid", "C17_Independent", "C17_LastWins", "C17_Append", "C17_Record"]
        known = [i for i in invs if ctx.known_invariant(i)]
        normal = [i for i in invs if i not in known]
        head = "CONSTANTS\n MaxLen = %d\n Defects = {%s}\nINIT Init\nNEXT Next\nCHECK_DEADLOCK FALSE\n" % (
            maxlen, ", ".join('"%s"' % x for x in defects))
        cfg = head + "".join("INVARIANT %s\n" % i for i in normal) + "INVARIANT Emit\n"
        r, seqs = run_small(d, "Builder", cfg, workers=1 if q else 4)
        ctx.states += r.distinct
        ctx.transitions += r.generated
        ctx.mc.append({"instance": "Builder(MaxLen=%d)" % maxlen, "distinct": r.distinct, "generated": r.generated,
                       "invariants": normal, "result": "ok" if r.ok else str(r.violation)})
        if not r.ok:
            if r.violation and r.violation[0] == "invariant":
                art = checkmain.save_artifact(ctx, "builder_model", {"kind": "tlc-counterexample", "violated": r.violation[1],
                                                                     "trace": r.trace})
                ctx.violations.append(("%s violated in Builder.tla (the model of the current builder.rs)" % r.violation[1], art))
            else:
                ctx.errors.append("TLC on Builder: %s\n%s" % (r.violation, r.out[-1500:]))
            return finish(ctx)
        for inv in known:
            f = ctx.known_invariant(inv)
            r2, _ = run_small(d, "Builder", head + "INVARIANT %s\n" % inv, workers=4)
            ctx.states += r2.distinct
            ctx.transitions += r2.generated
            if r2.violation and r2.violation[0] == "invariant":
                ctx.known.append((f, "%s violated in Builder.tla, which the real StoreBuilder follows call by call (below)" % inv))
            elif r2.ok:
                ctx.notes.append("known finding %s: %s holds" % (f["id"], inv))
        # every sequence on the real StoreBuilder, with probes of the built store
        res, path = seqlib("builder", {"seqs": seqs, "policy_probe_every": 12 if q else 4}, d)
        if res.get("error"):
            ctx.errors.append(res["error"])
        else:
            ctx.replayed += res["checked"]
            for s in seqs:
                ctx.distinct.add(json.dumps(s["seq"]))
            mid = seqs[len(seqs) // 2]
            ctx.samples.append({"kind": "builder call sequence executed on a real StoreBuilder",
                                "calls": [[c["m"], c["n"], c["s"], c["l"]] for c in mid["seq"]], "expected_settings": mid["cfg"],
                                "expected_build_ok": mid["ok"]})
            ctx.gens.append({"instance": "Builder", "sequences": len(seqs), "replayed": res["checked"],
                             "policy_probes": res.get("probed"), "exhaustive": True})
            if res.get("mismatch"):
                mm = res["mismatch"]
                bad = [s for s in seqs if s["seq"] == mm["seq"]]
                art = checkmain.save_artifact(ctx, "builder", {"kind": "builder sequence", "seq": "builder", "seqs": bad, "mismatch": mm})
                ctx.violations.append(("StoreBuilder deviates from Builder.tla after %s: %s: expected settings %s, got %s"
                                       % ([c["m"] for c in mm["seq"]], mm["what"], json.dumps(mm["expected"]), json.dumps(mm["got"])), art))
    finally:
        shutil.rmtree(d, ignore_errors=True)
    return finish(ctx, {"exhaustive": True})


PROPS = {"C16": c16, "C17": c17}


def run(ctx, finish):
    return PROPS[ctx.pid](ctx, finish)


def replay(a):
    d = tlc.workdir("seqreplay")
    try:
        if a.get("seq") == "selector":
            res, p = seqlib("selector", {"seqs": a["seqs"]}, d)
            print(json.dumps(res))
            return 0 if not res.get("mismatch") and not res.get("error") else 1
        if a.get("seq") == "builder":
            res, p = seqlib("builder", {"seqs": a["seqs"]}, d)
            print(json.dumps(res))
            return 0 if not res.get("mismatch") and not res.get("error") else 1
    finally:
        shutil.rmtree(d, ignore_errors=True)
    return 2
