"""Properties decided with their own small specifications (C16 selector, C17 builder, C19 two stores)."""
PROPS = {}


def run(ctx, finish):
    return PROPS[ctx.pid](ctx, finish)


def replay(artifact):
    return 2
