#!/bin/sh
# try_seed.sh <seed dir> <property ids...> : apply a seeded change to /repo, run the quick checks, undo it
dir=$1; shift
git -C /repo apply "$dir/patch.diff" || { echo "patch does not apply"; exit 2; }
for p in "$@"; do
  /verif/check $p --tier quick 2>&1 | grep -E "^(OK|VIOLATION|KNOWN|TOOL)|^   " | cut -c1-400 | head -6
  echo "exit=$? ($p)"
done
git -C /repo checkout -- .
