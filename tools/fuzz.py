"""Random instances: programs drawn from the public API under the properties' assumptions, model-checked
against every invariant of Props.tla, replayed (sample + blocked probes) and run freely.

usage: python3 tools/fuzz.py <first seed> <count> [--no-free]
Each seed yields one instance.  Prints one line per instance and a summary; exit 1 if anything fails."""
import json
import os
import random
import shutil
import sys
import time

HERE = os.path.dirname(os.path.abspath(__file__))
sys.path.insert(0, HERE)
import checkmain  # noqa: E402
import cover  # noqa: E402
import families  # noqa: E402
import instances  # noqa: E402
import pipeline  # noqa: E402
import tlc  # noqa: E402
from instances import D, O, S, TH, eff, red  # noqa: E402

INVARIANTS = ["C01_Fold", "C01_ExactlyOnce", "C01_Threaded", "C02_Order", "C02_ReduceOrder", "C03_OnlyDispatch",
              "C03_StateAndOrder", "C03_Stream", "C04_Barrier", "C04_ErrNeverReduced", "C05_Bound", "C05_NoLoss",
              "C06_NeverBlocks", "C06_RetryFindsRoom", "C06_Conservation", "C06_ErrIffDropped", "C06_Exact", "C07_ReducerContext",
              "C07_DirectOnReducer", "C07_Registered", "C08_Published", "C08_Valid", "C09_Notified", "C09_SilentAfter",
              "C09_ReleasedAtMostOnce", "C09_Released", "C10_OwnThread", "C10_Stream", "C10_Flush", "C10_NoStall",
              "C11_AtMostOnce", "C11_Once", "C11_Once_strict", "C11_Worker", "C11_Followup", "C12_Veto", "C12_Suppress",
              "C13_NoDeadlock", "C14_Stream", "C14_Detached", "C16_Store", "C18_Balance"]
PROPERTIES = ["C01_FinalAfterStop", "C04_Final", "C08_Monotone", "C11_QuietAfterStop", "C18_Monotone"]


def random_instance(seed):
    rnd = random.Random(seed)
    pol = rnd.choice(["block", "block", "oldest", "latest"])
    cap = rnd.choice([1, 1, 2, 3])
    nred = rnd.choice([1, 1, 2])
    reducers = ["r1", "r2"][:nred]
    kinds = (0, 1)
    effs = ["none", "none", "task", "fn", "panic"]
    rs = {r: {k: red(rnd.choice(["D", "D", "K"]), eff(rnd.choice(effs))) for k in kinds} for r in reducers}
    nmw = rnd.choice([0, 0, 1, 2])
    mws = ["m1", "m2"][:nmw]
    ms = {m: {ph: {k: rnd.choice(["C", "C", "C", "D", "B", "E"]) for k in kinds}
              for ph in ("before_reduce", "before_effect", "before_dispatch")} for m in mws}
    mr = {m: {k: rnd.choice(["none", "none", "first", "all"]) for k in kinds} for m in mws}
    subs = {"s1": {"kind": "direct"}, "s2": {"kind": "chan", "cap": rnd.choice([1, 2]), "pol": rnd.choice(["block", "oldest", "latest"])},
            "s3": {"kind": "iter", "cap": 1, "pol": "block"}, "s4": {"kind": "sel"}, "s5": {"kind": "direct"}}
    nact = [0]
    acts = {}

    def act():
        nact[0] += 1
        acts[nact[0]] = rnd.choice(kinds)
        return nact[0]

    def disp():
        return D(act(), rnd.choice(["impl", "trait", "store"]))

    nclients = rnd.choice([2, 2, 3])
    roles = ["prod", rnd.choice(["sub", "chan", "iter", "sel", "prod", "read", "tasks", "reg"])]
    if nclients == 3:
        roles.append(rnd.choice(["sub", "chan", "prod", "read"]))
    rnd.shuffle(roles)
    progs = {}
    used_iter = False
    fine_reg = False
    max_tasks = 0
    for i, role in enumerate(roles):
        c = "c%d" % (i + 1)
        if role == "prod":
            ops = [disp() for _ in range(rnd.choice([1, 2, 2, 3]))]
        elif role == "sub":
            sid = "s1" if not any(o.get("s") == "s1" for p in progs.values() for o in p) else "s5"
            ops = [S("add_sub", sid)] + [disp() for _ in range(rnd.choice([0, 1]))] + \
                  ([S("unsub", sid)] * rnd.choice([0, 1, 2]))
        elif role == "chan":
            if any(o.get("s") == "s2" for p in progs.values() for o in p):
                ops = [disp()]
            else:
                ops = [S("subscribed", "s2")] + [disp() for _ in range(rnd.choice([0, 1]))] + \
                      ([S("unsub", "s2")] * rnd.choice([0, 1]))
        elif role == "sel":
            ops = [S("add_sub", "s4")] + ([S("unsub", "s4")] * rnd.choice([0, 1]))
        elif role == "iter" and not used_iter:
            used_iter = True
            ops = [S("iter", "s3"), S("signal", "g")] + [S("next", "s3")] * rnd.choice([1, 2, 3]) + [S("drop_iter", "s3")]
        elif role == "read":
            ops = [O("get_state")] * rnd.choice([1, 2])
        elif role == "tasks":
            ops = [rnd.choice([O("task"), TH(act())]) for _ in range(rnd.choice([1, 2]))]
            max_tasks += len(ops)
        elif role == "reg":
            fine_reg = True
            ops = [S("add_reducer", "r3")] if rnd.random() < 0.5 else [S("add_mw", "m3")]
        else:
            ops = [disp()]
        progs[c] = ops
    # exactly one client shuts the store down, at the end of its program
    stopper = rnd.choice(sorted(progs))
    shut = rnd.choice([[O("stop")], [O("stop")], [O("close"), O("stop")], [O("drop_store")], [O("stop"), O("stop")]])
    tail = rnd.sample([O("get_state"), O("metrics"), disp()], rnd.choice([0, 1, 2]))
    wait = [S("wait", "g")] if used_iter and not any(o["op"] == "iter" for o in progs[stopper]) else []
    if used_iter and any(o["op"] == "iter" for o in progs[stopper]):
        # the iterator's owner cannot also wait for its own stop: let another client stop
        others = [c for c in progs if c != stopper]
        stopper = others[0]
        wait = [S("wait", "g")]
    progs[stopper] = progs[stopper] + wait + shut + tail
    # effects: one task per effect-producing reducer answer, per action
    n_eff = sum(1 for a, k in acts.items() for r in reducers if rs[r][k]["eff"]["k"] != "none")
    if "r3" in [o.get("s") for p in progs.values() for o in p]:
        n_eff += len(acts)
    max_tasks += n_eff
    for k in kinds:
        rs.setdefault("r3", {})[k] = red("D")
    inst = families._i("fz%d" % seed, [progs], acts, cap=cap, pol=pol, reducers=tuple(reducers), red_script=rs,
                       mws=tuple(mws), mw_script=ms, mw_remove=mr, subs=subs, max_tasks=max(1, max_tasks),
                       cb_reads=rnd.random() < 0.5 and "s2" not in [o.get("s") for p in progs.values() for o in p],
                       fine_reg=fine_reg)
    return inst


def run_one(seed, do_free=True, state_limit=400000):
    inst = random_instance(seed)
    ctx = checkmain.Ctx("FZ", "quick", seed)
    ctx.pid = "C00"
    t0 = time.time()
    d = tlc.workdir("fz")
    res = {"seed": seed, "name": inst["name"]}
    try:
        mod = "MC_fz"
        with open(os.path.join(d, mod + ".tla"), "w") as f:
            f.write(instances.mc_module(inst, mod, extends="Props"))
        known = [i for i in INVARIANTS if any(i in f.get("invariants", []) for f in ctx.kf["findings"])]
        body = "INIT Init\nNEXT Next\nCHECK_DEADLOCK FALSE\n" + "".join("INVARIANT %s\n" % i for i in INVARIANTS if i not in known) + \
               "".join("PROPERTY %s\n" % p for p in PROPERTIES)
        r = tlc.run(d, mod, instances.mc_cfg(inst, body), workers=12, timeout=240)
        res.update(distinct=r.distinct, mc="ok" if r.ok else ("timeout" if r.timeout else str(r.violation)))
        if r.timeout or r.distinct > state_limit:
            res["skipped"] = "too large"
            return res, inst
        if not r.ok:
            res["fail"] = "model: " + str(r.violation) + (r.out[-600:] if r.violation and r.violation[0] == "error" else "")
            return res, inst
        _, rg, g = pipeline.gen(inst, d=d, timeout=600)
        if not rg.ok:
            res["fail"] = "graph: " + str(rg.violation)
            return res, inst
        behs, st = cover.behaviours(g)
        rnd = random.Random(seed)
        if len(behs) > 250:
            behs = rnd.sample(behs, 250)
        jb = [cover.to_json(g, b, i) for i, b in enumerate(behs)]
        pr = cover.probes(g, per_kind=1, max_total=6)
        pj = [cover.probe_json(g, b, "p%d" % i, 250) for i, b in enumerate(pr)]
        doc = {"config": instances.harness_config(inst), "behaviours": jb + pj}
        rr, path, tr = pipeline.replay_doc(doc, d, tag="fz", timeout_ms=8000)
        byid = {b["id"]: b for b in jb + pj}
        bad = checkmain.classify_replay(ctx, inst, [x for x in rr if x["outcome"] != "probe_failed"], byid)
        pf = [x for x in rr if x["outcome"] == "probe_failed"]
        res.update(replayed=len(rr), probes=len(pj))
        if bad or pf:
            x = (bad[0][1] if bad else pf[0])
            res["fail"] = "replay: %s step %s expected %s got %s" % (bad[0][0] if bad else "probe_failed", x.get("step"),
                                                                 json.dumps(x.get("expected"))[:200], json.dumps(x.get("got"))[:200])
            res["artifact"] = checkmain.save_artifact(ctx, "fz%d" % seed, {"config": doc["config"], "behaviours": [byid[x["id"]]], "result": x})
            return res, inst
        if do_free:
            uses_reg = inst.get("fine_reg")
            progs = [inst["programs"][0]] * 30
            fr, trp = pipeline.freerun(inst, progs, d, seed=seed)
            import tracecheck
            hung = [x for x in fr if x["outcome"] != "finished"]
            v = tracecheck.validate_parallel(inst, trp, d, timeout=600)
            res.update(free=len(fr), accepted=v.get("accepted"))
            if hung:
                res["fail"] = "free run hung"
            elif v.get("error"):
                res["fail"] = "validator error: " + v.get("out", "")[-400:]
            elif not v.get("accepted"):
                res["fail"] = "trace rejected at " + json.dumps(v.get("event"))[:300]
                res["artifact"] = checkmain.save_artifact(ctx, "fzfree%d" % seed, {"config": doc["config"], "event": v.get("event"),
                                                                                     "runs": [{"id": 0, "prog": inst["programs"][0]}]})
        return res, inst
    finally:
        res["wall"] = round(time.time() - t0, 1)
        shutil.rmtree(d, ignore_errors=True)


if __name__ == "__main__":
    first, count = int(sys.argv[1]), int(sys.argv[2])
    ok, out, _ = pipeline.build_harness()
    fails = 0
    for s in range(first, first + count):
        res, inst = run_one(s, do_free="--no-free" not in sys.argv)
        print(json.dumps(res)[:700], flush=True)
        if res.get("fail"):
            fails += 1
            print("   prog:", json.dumps(inst["programs"][0])[:900], flush=True)
    print("fuzz: %d instances, %d failures" % (count, fails))
    sys.exit(1 if fails else 0)
