"""Validate recorded executions (ndjson written by the harness) against spec/Trace.tla."""
import json
import os
import re
import subprocess
import time

import instances
import tlc

DROP = {"start", "prog.end"}

# shape of the payload of each event kind; anything else is reported before TLC sees it
def _schema_ok(e):
    ev, d = e["ev"], e["d"]
    try:
        if ev in ("loop.wait", "clear.begin", "ntf.snap", "stop.join", "stop.pool", "stop.drain", "stop.closed", "red.begin", "mw.check", "loop.end", "iter.end", "iter.drop"):
            return d == 0
        if ev in ("send.full", "ch.txlock", "ch.join", "chloop.wait", "chloop.exit", "chfwd.begin", "sub.spawned"):
            return isinstance(d["ch"], str)
        if ev in ("send.begin", "send.pop"):
            it = d["item"]
            if d["ch"].endswith("D"):
                return isinstance(it, int)
            return isinstance(it["a"], int) and isinstance(it["st"], list)
        if ev == "loop.wrote":
            return isinstance(d["st"], list)
        if ev == "loop.recv":
            return isinstance(d["item"], int)
        if ev == "eff.spawn":
            return isinstance(d["n"], int)
        if ev == "send.end":
            return isinstance(d["ok"], int)
        if ev == "task.start":
            return isinstance(d["tid"], int) and isinstance(d["kind"], int)
        if ev == "task.end":
            return isinstance(d["tid"], int) and isinstance(d["panicked"], int)
        if ev == "cb":
            return (isinstance(d["what"], str) and isinstance(d["who"], str) and isinstance(d["st"], list)
                    and isinstance(d["a"], int) and isinstance(d["rd"], list) and isinstance(d["effs"], list))
        if ev == "op.end":
            return isinstance(d["op"], str)
        return False
    except Exception:
        return False


_CH = re.compile(r"(^|\.)Ch")


def _label_invariant(e, subs):
    """the invariants of Props.tla that speak about one label only (who may run which callback:
    C07_ReducerContext, C07_DirectOnReducer, C10_OwnThread, C11_Worker), evaluated on a recorded
    event before TLC looks for an explanation of the whole log.  Returns the violated one or None."""
    if e["ev"] != "cb":
        return None
    t = e["t"].split(".")[-1]
    d = e["d"]
    what, who = d["what"], d["who"].split(".")[-1]
    if what in ("effect", "after"):
        if not re.fullmatch(r"W\d+", t) or t != who:
            return "C11_Worker"
    elif what in ("reduce", "before_reduce", "before_effect", "before_dispatch", "on_error"):
        if t != "R":
            return "C07_ReducerContext"
    elif what in ("notify", "change"):
        kind = (subs.get(who) or {}).get("kind")
        if kind == "chan" and t != "Ch" + who:
            return "C10_OwnThread"
        if kind in ("direct", "sel") and t != "R":
            return "C07_DirectOnReducer"
    return None


def preprocess(src, dst, subs=None):
    """split into runs, drop harness-only events, link the events of each thread; returns run list
    [(id, first_index, n_events)] and the list of malformed events"""
    recs = []
    runs = []
    bad = []
    last = {}
    cur_reset = None
    with open(src) as f:
        for line in f:
            line = line.strip()
            if not line:
                continue
            e = json.loads(line)
            if e["ev"] == "reset":
                e["d"]["first"] = {}
                e["nx"] = 0
                recs.append(e)
                cur_reset = e
                runs.append([e["d"].get("id"), len(recs), 0])
                last = {}
                continue
            if e["ev"] in DROP:
                continue
            if not _schema_ok(e):
                bad.append((runs[-1][0] if runs else None, e))
            elif subs is not None and _label_invariant(e, subs):
                e["violates"] = _label_invariant(e, subs)
                bad.append((runs[-1][0] if runs else None, e))
            elif e["ev"] == "cb" and _CH.search(e["t"]) and e["d"]["rd"]:
                # a delivery thread's callback reads the state some time after it took the item (two
                # visible operations, one step of the specification): the read is not compared with
                # the model's, but it must not be older than the state being delivered
                d = e["d"]
                if d["what"] == "notify" and d["rd"][:len(d["st"])] != d["st"]:
                    bad.append((runs[-1][0] if runs else None, e))
                d["rd"] = [["?", 0]]
            e["nx"] = 0
            recs.append(e)
            idx = len(recs)
            runs[-1][2] += 1
            t = e["t"]
            if t in last:
                recs[last[t] - 1]["nx"] = idx
            else:
                cur_reset["d"]["first"][t] = idx
            last[t] = idx
    with open(dst, "w") as f:
        for e in recs:
            if e["ev"] == "reset":
                # TLC cannot read an empty JSON object as a record: keep at least one key
                if not e["d"]["first"]:
                    e["d"]["first"] = {"-": 0}
                e["d"] = {"prog": e["d"]["prog"] or {"-": []}, "first": e["d"]["first"], "id": e["d"].get("id", 0)}
            f.write(json.dumps(e) + "\n")
    return recs, runs, bad


def validate_parallel(inst, trace_path, d, chunk_runs=150, jobs=8, **kw):
    """split a long log into chunks of runs and validate them in parallel (Trace.tla needs one TLC
    worker per log because of its registers); the first rejecting chunk decides"""
    import concurrent.futures
    runs = []
    cur = None
    with open(trace_path) as f:
        for line in f:
            if line.startswith('{"') and '"ev":"reset"' in line.replace(" ", ""):
                cur = []
                runs.append(cur)
            if cur is not None:
                cur.append(line)
    if len(runs) <= chunk_runs:
        return validate(inst, trace_path, d, **kw)
    chunks = [runs[i:i + chunk_runs] for i in range(0, len(runs), chunk_runs)]
    paths = []
    for i, ch in enumerate(chunks):
        p = os.path.join(d, "chunk%d.ndjson" % i)
        with open(p, "w") as f:
            for r in ch:
                f.writelines(r)
        paths.append(p)

    def one(i):
        sub = os.path.join(d, "chunk%d" % i)
        os.makedirs(sub, exist_ok=True)
        for fn in os.listdir(d):
            if fn.endswith(".tla"):
                import shutil
                shutil.copy(os.path.join(d, fn), sub)
        return validate(inst, paths[i], sub, heap="2g", **kw)

    total = {"accepted": True, "reached": 0, "total": 0, "runs": 0, "states": 0, "wall": 0.0, "bad": []}
    with concurrent.futures.ThreadPoolExecutor(max_workers=jobs) as ex:
        for v in ex.map(one, range(len(chunks))):
            total["total"] += v.get("total", 0)
            total["runs"] += v.get("runs", 0)
            total["states"] += v.get("states", 0) or 0
            total["wall"] = max(total["wall"], v.get("wall", 0) or 0)
            if v.get("error") or not v.get("accepted"):
                if total["accepted"]:
                    total.update({k: v[k] for k in v if k not in ("total", "runs", "states", "wall")})
                    total["accepted"] = False
    return total


def validate(inst, trace_path, d=None, timeout=600, clients=None, invariants=(), heap="4g"):
    """returns dict(accepted, reached, total, run (id of the first unexplained run), event, wall, out)"""
    d = d or tlc.workdir("trace_" + inst["name"])
    proc = os.path.join(d, "trace.proc.ndjson")
    recs, runs, bad = preprocess(trace_path, proc, subs=inst.get("subs") or {})
    res = {"accepted": False, "reached": 0, "total": len(recs), "runs": len(runs), "bad": bad[:3]}
    if bad:
        res["reason"] = "malformed event"
        res["run"], res["event"] = bad[0][0], bad[0][1]
        if bad[0][1].get("violates"):
            res["reason"] = "label invariant"
            res["label_invariant"] = bad[0][1]["violates"]
        return res
    if not recs:
        res["accepted"] = True
        return res
    mod = "TR_" + inst["name"]
    clients = clients or sorted({c for p in inst["programs"] for c in p})
    inst2 = dict(inst)
    with open(os.path.join(d, mod + ".tla"), "w") as f:
        f.write(instances.mc_module(inst2, mod, extends="Trace",
                                    programs=[{c: [] for c in clients}]))
    body = "SPECIFICATION TraceSpec\nCONSTRAINT Track\nPOSTCONDITION Accepted\nCHECK_DEADLOCK FALSE\n"
    for inv in invariants:
        body += "INVARIANT %s\n" % inv
    r = tlc.run(d, mod, instances.mc_cfg(inst2, body), workers=1, timeout=timeout, dump_trace=False, heap=heap,
                env={"TRACE": proc, "JAVA_TOOL_OPTIONS": "-XX:+UseParallelGC -Xss1g -Xmx%s -Dtlc2.tool.queue.IStateQueue=StateDeque" % heap},
                keep_java_opts=True)
    res["wall"] = r.wall
    res["states"] = r.distinct
    m = re.search(r'<<"TRACE-RESULT", (TRUE|FALSE), (\d+), (\d+)>>', r.out)
    if not m:
        res["reason"] = "tlc failed"
        res["out"] = r.out[-3000:]
        res["error"] = True
        return res
    res["accepted"] = m.group(1) == "TRUE"
    res["reached"] = int(m.group(2))
    if r.violation and r.violation[0] == "invariant":
        res["accepted"] = False
        res["invariant"] = r.violation[1]
    if not res["accepted"]:
        # the first record nobody could explain
        k = res["reached"]          # l value: records 1..k-1 consumed
        if 1 <= k <= len(recs):
            res["event"] = recs[k - 1]
            rid = None
            for (i, first, n) in runs:
                if first <= k:
                    rid = i
            res["run"] = rid
        res["out"] = r.out[-1500:]
    return res
