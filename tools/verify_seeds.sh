#!/bin/bash
# verify_seeds.sh [seed dirs...]: confirm each seeded change in a scratch worktree of /repo:
# builds, the 46 tests pass, the demonstration fails with the change and passes without it.
# Writes <seed>/verified.json.
set -u
WT=/tmp/wt_verify
git -C /repo worktree remove --force $WT 2>/dev/null
git -C /repo worktree add -q --detach $WT HEAD || exit 2
cd $WT
for d in "$@"; do
  id=$(basename $d)
  git checkout -q -- . ; rm -rf tests
  res_build=fail; res_tests=fail; res_demo_with=unknown; res_demo_without=unknown
  if git apply "$d/patch.diff" 2>/dev/null; then
    if cargo build --offline >/dev/null 2>&1; then res_build=ok; fi
    out=$(cargo nextest run --workspace --no-fail-fast --tool-config-file pb:/w/lib/nextest.toml --profile pb --test-threads 8 --offline 2>&1 | grep -E "Summary" | tail -1)
    if echo "$out" | grep -q "46 passed"; then res_tests=ok; else
      out=$(cargo nextest run --workspace --no-fail-fast --tool-config-file pb:/w/lib/nextest.toml --profile pb --test-threads 8 --offline 2>&1 | grep -E "Summary" | tail -1)
      if echo "$out" | grep -q "46 passed"; then res_tests="ok (second run)"; else res_tests="fail: $out"; fi
    fi
    mkdir -p tests; cp "$d/demo_mutation.rs" tests/demo_mutation.rs
    if timeout 600 cargo test --offline --test demo_mutation >/tmp/demo_with.log 2>&1; then res_demo_with="passes (unexpected)"; else res_demo_with="fails (expected)"; fi
    git checkout -q -- src
    if timeout 600 cargo test --offline --test demo_mutation >/tmp/demo_without.log 2>&1; then res_demo_without="passes (expected)"; else res_demo_without="fails (unexpected)"; fi
  else
    res_build="patch does not apply"
  fi
  printf '{"seed":"%s","base":"%s","build":"%s","suite_46":"%s","demo_with_change":"%s","demo_without_change":"%s"}\n' "$id" "$(git -C /repo rev-parse --short HEAD)" "$res_build" "$res_tests" "$res_demo_with" "$res_demo_without" | tee "$d/verified.json"
done
cd /; git -C /repo worktree remove --force $WT
