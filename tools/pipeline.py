"""Glue: instance -> TLC graph -> behaviours -> controlled replay on the real crate."""
import json
import os
import random
import shutil
import subprocess
import time

import cover
import instances
import tlc

ROOT = os.path.dirname(os.path.dirname(os.path.abspath(__file__)))
HARNESS = os.path.join(ROOT, "harness")
REPLAY = os.path.join(HARNESS, "target", "release", "replay")


def build_harness():
    """(re)build the harness against /repo's working tree with the hooks on"""
    t0 = time.time()
    lock = os.path.join(HARNESS, "Cargo.lock")
    if not os.path.exists(lock):
        shutil.copy("/repo/Cargo.lock", lock)
    p = subprocess.run(["cargo", "build", "--release", "--offline"], cwd=HARNESS, stdout=subprocess.PIPE,
                       stderr=subprocess.STDOUT, text=True)
    return p.returncode == 0, p.stdout, time.time() - t0


def gen(inst, d=None, gen_body="INIT Init\nNEXT Next\nCHECK_DEADLOCK FALSE", timeout=900):
    """state graph of the instance and an edge cover by complete behaviours"""
    d = d or tlc.workdir("gen_" + inst["name"])
    mod = "Gen_" + inst["name"]
    with open(os.path.join(d, mod + ".tla"), "w") as f:
        f.write(instances.mc_module(inst, mod, extends="Gen"))
    r, g = tlc.graph(d, mod, instances.mc_cfg(inst, gen_body), timeout=timeout)
    return d, r, g


def replay(inst, g, behs, d, tag="beh", timeout_ms=10000, trace=True, hard_timeout=1200):
    """replay behaviours (list from cover.behaviours) in child processes; returns result dicts"""
    doc = {"config": instances.harness_config(inst),
           "behaviours": [cover.to_json(g, b, i) for i, b in enumerate(behs)]}
    return replay_doc(doc, d, tag, timeout_ms, trace, hard_timeout)


def replay_doc(doc, d, tag="beh", timeout_ms=10000, trace=True, hard_timeout=1200, max_bad=3):
    path = os.path.join(d, tag + ".json")
    json.dump(doc, open(path, "w"))
    trace_path = os.path.join(d, tag + ".trace.ndjson")
    if os.path.exists(trace_path):
        os.remove(trace_path)
    results = []
    start = 0
    n = len(doc["behaviours"])
    t_end = time.time() + hard_timeout
    while start < n:
        cmd = [REPLAY, path, "--from", str(start), "--timeout-ms", str(timeout_ms), "--fail-fast"]
        if trace:
            cmd += ["--trace", trace_path]
        try:
            p = subprocess.run(cmd, stdout=subprocess.PIPE, stderr=subprocess.PIPE, text=True,
                               timeout=max(5, t_end - time.time()))
            out = p.stdout
            rc = p.returncode
        except subprocess.TimeoutExpired as ex:
            out = ex.stdout.decode() if isinstance(ex.stdout, bytes) else (ex.stdout or "")
            rc = -9
        got = [json.loads(l) for l in out.splitlines() if l.startswith("{")]
        results += got
        if rc == 0:
            break
        # the child died or stopped on a hung run: continue after the last reported behaviour
        nxt = (got[-1]["index"] + 1) if got else start + 1
        if not got:
            results.append({"index": start, "id": doc["behaviours"][start]["id"], "outcome": "error",
                            "got": "replay process ended with %s without a result" % rc, "tail": "hung"})
        start = nxt
        ends = {b["id"]: b.get("end") for b in doc["behaviours"]}
        nbad = sum(1 for r in results if r["outcome"] != "followed"
                   or (r.get("tail") == "hung") != (ends.get(r["id"]) == "deadlock"))
        if time.time() > t_end or nbad >= max_bad:
            break
    return results, path, trace_path


def summarize(results):
    c = {}
    for r in results:
        k = r["outcome"] + ("/" + r.get("tail", "") if r.get("tail") not in (None, "clean") else "")
        c[k] = c.get(k, 0) + 1
    return c


FREERUN = os.path.join(HARNESS, "target", "release", "freerun")


def freerun(inst, progs, d, seed=1, tag="free", hard_timeout=900):
    """run the given programs (list of {client: ops}) freely on OS threads; returns (results, trace path)"""
    doc = {"config": instances.harness_config(inst), "runs": [{"id": i, "prog": p} for i, p in enumerate(progs)]}
    path = os.path.join(d, tag + ".json")
    json.dump(doc, open(path, "w"))
    trace_path = os.path.join(d, tag + ".trace.ndjson")
    if os.path.exists(trace_path):
        os.remove(trace_path)
    results = []
    start = 0
    t_end = time.time() + hard_timeout
    while start < len(progs) and time.time() < t_end:
        cmd = [FREERUN, path, "--trace", trace_path, "--seed", str(seed), "--from", str(start)]
        try:
            p = subprocess.run(cmd, stdout=subprocess.PIPE, stderr=subprocess.PIPE, text=True,
                               timeout=max(5, t_end - time.time()))
            out, rc = p.stdout, p.returncode
        except subprocess.TimeoutExpired as ex:
            out = ex.stdout.decode() if isinstance(ex.stdout, bytes) else (ex.stdout or "")
            rc = -9
        got = [json.loads(l) for l in out.splitlines() if l.startswith("{")]
        results += got
        if rc == 0:
            break
        start = (got[-1]["index"] + 1) if got else start + 1
    return results, trace_path
