//! Event log, thread roles and the gate scheduler.
//!
//! Every hook point of rs-store (through `rs_store::verif::Tracer`) and every harness-side point
//! (scripted callbacks, the gap between two public calls) ends up in `Sched::emit`.  A point is
//! either a *note* (kept and attached to the thread's next event), a *final* event (logged, the
//! thread goes on) or a *gating* event (logged; in gated mode the thread waits until the driver
//! releases it).
use serde_json::{json, Value};
use std::collections::HashMap;
use std::sync::{Arc, Condvar, Mutex, OnceLock};
use std::thread::ThreadId;
use std::time::{Duration, Instant};

#[derive(Clone, Debug)]
pub struct Event {
    pub seq: u64,
    pub t: String,
    pub ev: String,
    pub d: Value,
    pub notes: Vec<Value>,
    pub ans: String,
    /// which store the event belongs to ("" when the run has one store, "A." / "B." otherwise)
    pub st: String,
}

impl Event {
    pub fn to_json(&self) -> Value {
        json!({"seq": self.seq, "t": self.t, "ev": self.ev, "d": self.d, "notes": self.notes, "ans": self.ans, "st": self.st})
    }
}

#[derive(Default)]
struct Slot {
    event: Option<Event>, // arrived, not yet consumed by the driver
    parked: bool,
    released: bool,
    answer: String,
}

#[derive(PartialEq, Clone, Copy)]
pub enum Mode {
    Gated,
    Free,
    /// points are ignored (used while the harness cleans up after a run)
    Off,
}

struct Inner {
    mode: Mode,
    fine_reg: bool, // gate also after the receive and before the reducers lock
    jitter: u64, // free mode: 0 = none, otherwise state of a xorshift generator
    seq: u64,
    roles: HashMap<ThreadId, String>,
    notes: HashMap<String, Vec<Value>>,
    left_ans: HashMap<String, String>,
    slots: HashMap<String, Slot>,
    log: Vec<Event>,
    chan_names: HashMap<usize, String>,
    /// capacity each named channel was created with
    chan_caps: HashMap<String, i64>,
    /// stores (by prefix) whose reducer loop has ended
    loops_ended: std::collections::HashSet<String>,
    chan_hint: HashMap<ThreadId, String>,
    stores: HashMap<usize, String>, // store id -> prefix ("" for the first store, "B." for the second)
    store_hint: HashMap<ThreadId, String>,
    cur_st: HashMap<ThreadId, String>, // store of the public call a client thread is in
    task_ids: HashMap<usize, i64>,
    n_tasks: HashMap<String, i64>,
    unknown: u64,
}

pub struct Sched {
    inner: Mutex<Inner>,
    cv: Condvar,
    epoch: std::sync::atomic::AtomicU64,
}

static SCHED: OnceLock<Arc<Sched>> = OnceLock::new();

pub fn sched() -> Arc<Sched> {
    SCHED
        .get_or_init(|| {
            Arc::new(Sched {
                inner: Mutex::new(Inner::new()),
                cv: Condvar::new(),
                epoch: std::sync::atomic::AtomicU64::new(0),
            })
        })
        .clone()
}

impl Inner {
    fn new() -> Self {
        Inner {
            mode: Mode::Free,
            fine_reg: false,
            jitter: 0,
            seq: 0,
            roles: HashMap::new(),
            notes: HashMap::new(),
            left_ans: HashMap::new(),
            slots: HashMap::new(),
            log: Vec::new(),
            chan_names: HashMap::new(),
            chan_caps: HashMap::new(),
            loops_ended: Default::default(),
            chan_hint: HashMap::new(),
            stores: HashMap::new(),
            store_hint: HashMap::new(),
            cur_st: HashMap::new(),
            task_ids: HashMap::new(),
            n_tasks: HashMap::new(),
            unknown: 0,
        }
    }
}

pub enum Class {
    Note,
    Final,
    Gate,
    Drop,
}

fn exit_item(ch: &str) -> Value {
    if ch.ends_with('D') {
        json!(0)
    } else {
        json!({"st": [], "a": 0})
    }
}
fn none_item(ch: &str) -> Value {
    if ch.ends_with('D') {
        json!(-1)
    } else {
        json!({"st": [], "a": -1})
    }
}

impl Sched {
    /// number of the current run; scripted objects of earlier runs stay silent
    pub fn epoch(&self) -> u64 {
        self.epoch.load(std::sync::atomic::Ordering::SeqCst)
    }

    pub fn reset(&self, mode: Mode) {
        let mut g = self.inner.lock().unwrap();
        self.epoch.fetch_add(1, std::sync::atomic::Ordering::SeqCst);
        *g = Inner::new();
        g.mode = mode;
    }

    /// free mode: after each event the thread yields / spins for a pseudo-random short time
    pub fn set_jitter(&self, seed: u64) {
        let mut g = self.inner.lock().unwrap();
        g.jitter = seed | 1;
    }

    pub fn is_free(&self) -> bool {
        self.inner.lock().unwrap().mode == Mode::Free
    }

    pub fn set_fine_reg(&self, on: bool) {
        self.inner.lock().unwrap().fine_reg = on;
    }

    pub fn set_mode(&self, mode: Mode) {
        let mut g = self.inner.lock().unwrap();
        g.mode = mode;
        self.cv.notify_all();
    }

    pub fn register(&self, role: &str) {
        let mut g = self.inner.lock().unwrap();
        g.roles.insert(std::thread::current().id(), role.to_string());
    }

    pub fn unregister(&self) {
        let mut g = self.inner.lock().unwrap();
        g.roles.remove(&std::thread::current().id());
    }

    pub fn current_role(&self) -> String {
        let g = self.inner.lock().unwrap();
        g.roles
            .get(&std::thread::current().id())
            .cloned()
            .unwrap_or_else(|| "?".to_string())
    }

    /// has the reducer loop of the store with this prefix logged its end?
    pub fn loop_ended(&self, prefix: &str) -> bool {
        self.inner.lock().unwrap().loops_ended.contains(prefix)
    }

    /// the capacity the channel of this name was created with
    pub fn chan_cap(&self, name: &str) -> Option<i64> {
        self.inner.lock().unwrap().chan_caps.get(name).cloned()
    }

    /// the next channel created by this thread gets this name
    pub fn hint_chan(&self, name: &str) {
        let mut g = self.inner.lock().unwrap();
        g.chan_hint.insert(std::thread::current().id(), name.to_string());
    }

    /// the next store created by this thread gets this prefix
    pub fn hint_store(&self, prefix: &str) {
        let mut g = self.inner.lock().unwrap();
        g.store_hint.insert(std::thread::current().id(), prefix.to_string());
    }

    /// the current thread starts a public call on this store
    pub fn set_cur_store(&self, prefix: &str) {
        let mut g = self.inner.lock().unwrap();
        g.cur_st.insert(std::thread::current().id(), prefix.to_string());
    }

    /// the scripted callback the current thread is leaving gave this answer
    pub fn set_left_ans(&self, ans: &str) {
        let mut g = self.inner.lock().unwrap();
        let role = g
            .roles
            .get(&std::thread::current().id())
            .cloned()
            .unwrap_or_else(|| "?".to_string());
        g.left_ans.insert(role, ans.to_string());
    }

    pub fn take_log(&self) -> Vec<Event> {
        let mut g = self.inner.lock().unwrap();
        std::mem::take(&mut g.log)
    }

    /// A hook point of the crate.
    pub fn hook(&self, kind: &str, store: usize, obj: usize, data: Option<String>, n: i64) {
        let tid = std::thread::current().id();
        let mut g = self.inner.lock().unwrap();
        if g.mode == Mode::Off {
            return;
        }
        // store prefix; a store is made known by the creation of its dispatch channel on a thread
        // that announced it (hint_store).  Events of unknown stores / channels come from threads
        // of an earlier run that are still winding down: they are not part of this run.
        let prefix = if store != 0 {
            if let Some(p) = g.stores.get(&store) {
                p.clone()
            } else if kind == "chan.new" && g.store_hint.contains_key(&tid) {
                let p = g.store_hint.remove(&tid).unwrap_or_default();
                g.stores.insert(store, p.clone());
                p
            } else {
                return;
            }
        } else {
            String::new()
        };
        if store == 0 && obj != 0 && kind != "chan.new" && !g.chan_names.contains_key(&obj) {
            return;
        }
        let parsed: Option<Value> = data.as_ref().and_then(|s| serde_json::from_str(s).ok());
        match kind {
            "chan.new" => {
                let name = g
                    .chan_hint
                    .remove(&tid)
                    .unwrap_or_else(|| format!("{}D", prefix));
                g.chan_caps.insert(name.clone(), n);
                g.chan_names.insert(obj, name);
                return;
            }
            _ => {}
        }
        let ch = g
            .chan_names
            .get(&obj)
            .cloned()
            .unwrap_or_else(|| format!("ch{}", obj));
        // role of the calling thread
        let role = match g.roles.get(&tid) {
            Some(r) => r.clone(),
            None => {
                let r = match kind {
                    "loop.wait" => format!("{}R", prefix),
                    "task.start" => {
                        let lt = g.task_ids.get(&obj).cloned().unwrap_or(-1);
                        format!("{}W{}", prefix, lt)
                    }
                    "chloop.wait" => match ch.split_once('.') {
                        Some((p, rest)) => format!("{}.Ch{}", p, rest),
                        None => format!("Ch{}", ch),
                    },
                    _ => {
                        g.unknown += 1;
                        format!("?{}", g.unknown)
                    }
                };
                g.roles.insert(tid, r.clone());
                r
            }
        };
        let (class, ev, d): (Class, &str, Value) = match kind {
            "send.begin" => {
                let item = match parsed {
                    Some(Value::String(ref s)) if s == "exit" => exit_item(&ch),
                    Some(v) => v,
                    None => json!("?"),
                };
                (Class::Gate, kind, json!({"ch": ch, "item": item}))
            }
            "send.full" => (Class::Gate, kind, json!({"ch": ch})),
            "send.pop" => {
                let item = match parsed {
                    Some(Value::String(ref s)) if s == "exit" => exit_item(&ch),
                    Some(v) => v,
                    None => none_item(&ch),
                };
                (Class::Gate, kind, json!({"ch": ch, "item": item}))
            }
            "send.end" => (Class::Gate, kind, json!({"ch": ch, "ok": n})),
            "loop.wait" | "clear.begin" | "ntf.snap" | "stop.join" | "stop.pool" | "stop.drain" | "stop.closed" => {
                (Class::Gate, kind, json!(0))
            }
            "loop.end" => {
                g.loops_ended.insert(prefix.clone());
                (Class::Final, kind, json!(0))
            }
            "loop.recv" => {
                let item = match parsed {
                    Some(Value::String(ref s)) if s == "exit" => json!(0),
                    Some(v) => v,
                    None => json!("?"),
                };
                if g.fine_reg {
                    (Class::Gate, kind, json!({"item": item}))
                } else {
                    (Class::Note, "recv", json!({"k": "recv", "n": item, "st": []}))
                }
            }
            "red.begin" | "mw.check" => {
                if g.fine_reg {
                    (Class::Gate, kind, json!(0))
                } else {
                    (Class::Drop, kind, json!(0))
                }
            }
            "loop.wrote" => (Class::Gate, kind, json!({"st": parsed.unwrap_or(json!("?"))})),
            "eff.spawn" => (Class::Gate, kind, json!({"n": n})),
            "pool.took" => (Class::Note, "took", json!({"k": "took", "n": n, "st": []})),
            "task.submit" => {
                let c = g.n_tasks.entry(prefix.clone()).or_insert(0);
                *c += 1;
                let lt = *c;
                g.task_ids.insert(obj, lt);
                (Class::Note, "submit", json!({"k": "submit", "n": lt, "st": []}))
            }
            "task.skip" => (Class::Note, "skip", json!({"k": "skip", "n": 0, "st": []})),
            "task.start" => {
                let lt = g.task_ids.get(&obj).cloned().unwrap_or(-1);
                (Class::Gate, kind, json!({"tid": lt, "kind": n}))
            }
            "task.end" => {
                let lt = g.task_ids.get(&obj).cloned().unwrap_or(-1);
                (Class::Final, kind, json!({"tid": lt, "panicked": n}))
            }
            "ch.txlock" | "ch.join" | "chloop.wait" | "chfwd.begin" | "sub.spawned" => {
                (Class::Gate, kind, json!({"ch": ch}))
            }
            "chloop.exit" => (Class::Final, kind, json!({"ch": ch})),
            "chloop.recv" => (Class::Note, "chrecv", json!({"k": "chrecv", "n": n, "st": []})),
            "iter.end" | "iter.drop" => {
                if n == 1 {
                    (Class::Gate, kind, json!(0))
                } else {
                    (Class::Drop, kind, json!(0))
                }
            }
            _ => (Class::Gate, "unknown.hook", json!({"kind": kind})),
        };
        // the store the event belongs to: by store identity, by channel name, or the call in progress
        let st = if store != 0 {
            prefix.clone()
        } else if let Some((p, _)) = ch.split_once('.') {
            format!("{}.", p)
        } else if obj == 0 {
            g.cur_st.get(&tid).cloned().unwrap_or_default()
        } else {
            String::new()
        };
        self.emit_locked(g, role, class, ev, d, st);
    }

    /// A harness-side point of the current thread (scripted callback, end of a public call).
    pub fn point(&self, class: Class, ev: &str, d: Value) -> String {
        self.point_of(None, class, ev, d)
    }

    /// a harness-side point that belongs to the given store, whatever thread it is on
    pub fn point_st(&self, st: &str, class: Class, ev: &str, d: Value) -> String {
        let tid = std::thread::current().id();
        let mut g = self.inner.lock().unwrap();
        if g.mode == Mode::Off {
            return String::new();
        }
        let role = match g.roles.get(&tid) {
            Some(r) => r.clone(),
            None => {
                g.unknown += 1;
                let r = format!("?{}", g.unknown);
                g.roles.insert(tid, r.clone());
                r
            }
        };
        self.emit_locked(g, role, class, ev, d, st.to_string())
    }

    /// like `point`, for an object created in run `epoch`: ignored when that run is over
    pub fn point_of(&self, epoch: Option<u64>, class: Class, ev: &str, d: Value) -> String {
        let tid = std::thread::current().id();
        let mut g = self.inner.lock().unwrap();
        if g.mode == Mode::Off {
            return String::new();
        }
        if let Some(e) = epoch {
            // checked under the lock that reset() takes, so a straggler cannot slip into the next run
            if e != self.epoch() {
                return String::new();
            }
        }
        let role = match g.roles.get(&tid) {
            Some(r) => r.clone(),
            None => {
                g.unknown += 1;
                let r = format!("?{}", g.unknown);
                g.roles.insert(tid, r.clone());
                r
            }
        };
        let st = match role.split_once('.') {
            Some((p, _)) if !role.starts_with('?') => format!("{}.", p),
            _ => g.cur_st.get(&tid).cloned().unwrap_or_default(),
        };
        self.emit_locked(g, role, class, ev, d, st)
    }

    fn emit_locked(
        &self,
        mut g: std::sync::MutexGuard<'_, Inner>,
        role: String,
        class: Class,
        ev: &str,
        d: Value,
        st: String,
    ) -> String {
        match class {
            Class::Drop => return String::new(),
            Class::Note => {
                g.notes.entry(role).or_default().push(d);
                return String::new();
            }
            _ => {}
        }
        g.seq += 1;
        let seq = g.seq;
        let notes = g.notes.remove(&role).unwrap_or_default();
        let ans = g.left_ans.remove(&role).unwrap_or_else(|| "-".to_string());
        let e = Event {
            seq,
            t: role.clone(),
            ev: ev.to_string(),
            d,
            notes,
            ans,
            st,
        };
        g.log.push(e.clone());
        let is_final = matches!(class, Class::Final);
        if is_final {
            let tid = std::thread::current().id();
            g.roles.remove(&tid);
        }
        {
            let slot = g.slots.entry(role.clone()).or_default();
            slot.event = Some(e);
            slot.parked = !is_final;
            slot.released = false;
        }
        self.cv.notify_all();
        if is_final {
            return String::new();
        }
        if g.mode == Mode::Free && g.jitter != 0 {
            let mut x = g.jitter;
            x ^= x << 13;
            x ^= x >> 7;
            x ^= x << 17;
            g.jitter = x;
            drop(g);
            match x % 8 {
                0 | 1 => std::thread::yield_now(),
                2 => std::thread::sleep(Duration::from_micros(x % 150)),
                3 => {
                    let t = Instant::now();
                    while t.elapsed() < Duration::from_micros(x % 30) {
                        std::hint::spin_loop();
                    }
                }
                _ => {}
            }
            return String::new();
        }
        // park
        loop {
            if g.mode != Mode::Gated {
                break;
            }
            if g.slots.get(&role).map(|s| s.released).unwrap_or(true) {
                break;
            }
            g = self.cv.wait(g).unwrap();
        }
        let slot = g.slots.entry(role).or_default();
        slot.parked = false;
        slot.released = false;
        std::mem::take(&mut slot.answer)
    }

    // ---------------------------------------------------------------- driver side

    /// true if the role has an event the driver has not consumed yet
    pub fn has_pending(&self, role: &str) -> bool {
        let g = self.inner.lock().unwrap();
        g.slots.get(role).map(|s| s.event.is_some()).unwrap_or(false)
    }

    pub fn is_parked(&self, role: &str) -> bool {
        let g = self.inner.lock().unwrap();
        g.slots.get(role).map(|s| s.parked).unwrap_or(false)
    }

    pub fn release(&self, role: &str, ans: &str) -> bool {
        let mut g = self.inner.lock().unwrap();
        match g.slots.get_mut(role) {
            Some(s) if s.parked => {
                s.answer = ans.to_string();
                s.released = true;
                s.event = None;
                self.cv.notify_all();
                true
            }
            _ => false,
        }
    }

    /// One driver step for `role`: if an event of the role is waiting to be consumed, take it;
    /// otherwise release the role if it is parked (its event was consumed earlier) and wait for
    /// its next event.  Decided under one lock acquisition, so an event that arrives in between
    /// cannot be mistaken for a consumed one.
    pub fn step(&self, role: &str, ans: &str, timeout: Duration) -> Option<Event> {
        let deadline = Instant::now() + timeout;
        let mut g = self.inner.lock().unwrap();
        if let Some(s) = g.slots.get_mut(role) {
            if let Some(e) = s.event.take() {
                return Some(e);
            }
            if s.parked {
                s.answer = ans.to_string();
                s.released = true;
                self.cv.notify_all();
            }
        }
        loop {
            if let Some(s) = g.slots.get_mut(role) {
                if let Some(e) = s.event.take() {
                    return Some(e);
                }
            }
            let now = Instant::now();
            if now >= deadline {
                return None;
            }
            let (g2, _) = self.cv.wait_timeout(g, deadline - now).unwrap();
            g = g2;
        }
    }

    /// wait for the next (unconsumed) event of the role and consume it
    pub fn wait_event(&self, role: &str, timeout: Duration) -> Option<Event> {
        let deadline = Instant::now() + timeout;
        let mut g = self.inner.lock().unwrap();
        loop {
            if let Some(s) = g.slots.get_mut(role) {
                if let Some(e) = s.event.take() {
                    return Some(e);
                }
            }
            let now = Instant::now();
            if now >= deadline {
                return None;
            }
            let (g2, _) = self.cv.wait_timeout(g, deadline - now).unwrap();
            g = g2;
        }
    }

    /// roles that currently have an unconsumed event (arrived without being asked for)
    pub fn pending_roles(&self) -> Vec<(String, String)> {
        let g = self.inner.lock().unwrap();
        let mut v: Vec<(String, String)> = g
            .slots
            .iter()
            .filter_map(|(r, s)| s.event.as_ref().map(|e| (r.clone(), e.ev.clone())))
            .collect();
        v.sort();
        v
    }
}

/// The tracer installed into rs-store.
pub struct HookTracer;

impl rs_store::verif::Tracer for HookTracer {
    fn point(&self, p: rs_store::verif::Point) {
        sched().hook(p.kind, p.store, p.obj, p.data, p.n);
    }
}
