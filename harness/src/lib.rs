//! Verification harness for rs-store: scripted user code, program interpreter, store set-up.
pub mod sched;

use rs_store::{
    BackpressurePolicy, DispatchOp, Dispatcher, DroppableStore, Effect, Middleware, MiddlewareOp,
    Reducer, Selector, Store, StoreBuilder, StoreError, StoreImpl, Subscriber, Subscription,
};
use sched::{sched, Class};
use serde::Deserialize;
use serde_json::{json, Value};
use std::any::Any;
use std::cell::RefCell;
use std::collections::HashMap;
use std::sync::{Arc, Mutex, OnceLock, Weak};
use std::time::Instant;

#[derive(Clone, Debug)]
pub struct Act {
    pub id: i64,
    pub kind: i64,
}

#[derive(Debug, Default, PartialEq)]
pub struct St(pub Vec<(String, i64)>);

/// free runs: cloning the state takes up to this many microseconds (the store clones it while holding
/// the state lock, so concurrent readers then really overlap); 0 = off
pub static SLOW_CLONE_US: std::sync::atomic::AtomicU64 = std::sync::atomic::AtomicU64::new(0);
static CLONE_RNG: std::sync::atomic::AtomicU64 = std::sync::atomic::AtomicU64::new(0x9E3779B97F4A7C15);

impl Clone for St {
    fn clone(&self) -> Self {
        let us = SLOW_CLONE_US.load(std::sync::atomic::Ordering::Relaxed);
        if us > 0 {
            let mut x = CLONE_RNG.load(std::sync::atomic::Ordering::Relaxed);
            x ^= x << 13;
            x ^= x >> 7;
            x ^= x << 17;
            CLONE_RNG.store(x, std::sync::atomic::Ordering::Relaxed);
            let t = Instant::now();
            let d = std::time::Duration::from_micros(x % us);
            while t.elapsed() < d {
                std::hint::spin_loop();
            }
        }
        St(self.0.clone())
    }
}

impl St {
    pub fn json(&self) -> Value {
        Value::Array(self.0.iter().map(|(r, a)| json!([r, a])).collect())
    }
}

pub type TStore = StoreImpl<St, Act>;

/// turns the values rs-store hands to its hooks into JSON text
pub fn describer(x: &dyn Any) -> Option<String> {
    if let Some(a) = x.downcast_ref::<Act>() {
        return Some(a.id.to_string());
    }
    if let Some(s) = x.downcast_ref::<St>() {
        return Some(s.json().to_string());
    }
    if let Some((s, a)) = x.downcast_ref::<(St, Act)>() {
        return Some(json!({"st": s.json(), "a": a.id}).to_string());
    }
    if let Some((_, s, a)) = x.downcast_ref::<(Instant, St, Act)>() {
        return Some(json!({"st": s.json(), "a": a.id}).to_string());
    }
    None
}

// ------------------------------------------------------------------------------------ configuration

#[derive(Clone, Debug, Deserialize)]
pub struct EffDesc {
    pub k: String,
    #[serde(default)]
    pub a: i64,
}

#[derive(Clone, Debug, Deserialize)]
pub struct RedEntry {
    pub op: String,
    pub eff: EffDesc,
}

#[derive(Clone, Debug, Deserialize)]
pub struct SubCfg {
    pub kind: String,
    #[serde(default = "one")]
    pub cap: usize,
    #[serde(default = "block")]
    pub pol: String,
}
fn one() -> usize {
    1
}
fn block() -> String {
    "block".into()
}

#[derive(Clone, Debug, Deserialize)]
pub struct OpDesc {
    pub op: String,
    #[serde(default)]
    pub a: i64,
    #[serde(default = "dash")]
    pub via: String,
    #[serde(default = "dash")]
    pub s: String,
    /// which store the call goes to ("" when the run has one store, "A" / "B" otherwise)
    #[serde(default)]
    pub st: String,
}
fn dash() -> String {
    "-".into()
}

#[derive(Clone, Debug, Deserialize)]
pub struct Config {
    pub cap: usize,
    pub pol: String,
    #[serde(default = "store_name")]
    pub name: String,
    pub init_reducers: Vec<String>,
    #[serde(default)]
    pub init_mws: Vec<String>,
    /// reducer id -> kind -> entry
    pub red_script: HashMap<String, HashMap<String, RedEntry>>,
    /// mw id -> phase -> kind -> verdict
    #[serde(default)]
    pub mw_script: HashMap<String, HashMap<String, HashMap<String, String>>>,
    #[serde(default)]
    pub mw_remove: HashMap<String, HashMap<String, String>>,
    /// mw id -> kind -> action the before_dispatch hook dispatches through its dispatcher (0 = none)
    #[serde(default)]
    pub mw_disp: HashMap<String, HashMap<String, i64>>,
    #[serde(default)]
    pub subs: HashMap<String, SubCfg>,
    /// action id -> kind
    pub kind: HashMap<String, i64>,
    #[serde(default)]
    pub cb_reads: bool,
    /// finer park points for run-time registration (after the receive, before the reducers lock)
    #[serde(default)]
    pub fine_reg: bool,
    /// free runs: scripted reducers / delivery-thread callbacks sleep up to this many microseconds, so that
    /// producers get ahead of the reducer and channeled subscribers fall behind (timing is not modelled)
    #[serde(default)]
    pub slow_reduce_us: u64,
    #[serde(default)]
    pub slow_deliver_us: u64,
    #[serde(default)]
    pub slow_clone_us: u64,
    /// free runs: a Task effect / task takes this long, so that many of them are in flight at once
    #[serde(default)]
    pub slow_effect_us: u64,
    /// the verdicts a "*" entry of a middleware script may take (free runs pick among them)
    #[serde(default)]
    pub mw_verdicts: Vec<String>,
}
fn store_name() -> String {
    "store".into()
}

impl Config {
    pub fn act(&self, id: i64) -> Act {
        Act {
            id,
            kind: *self.kind.get(&id.to_string()).unwrap_or(&0),
        }
    }
}

pub fn policy(p: &str) -> BackpressurePolicy {
    match p {
        "oldest" => BackpressurePolicy::DropOldest,
        "latest" => BackpressurePolicy::DropLatest,
        _ => BackpressurePolicy::BlockOnFull,
    }
}

// ------------------------------------------------------------------------------------ environment

/// What scripted objects need: the configuration and (once built) the store.
pub struct Env {
    pub cfg: Config,
    pub store: OnceLock<Weak<TStore>>,
    pub prefix: String,
    pub epoch: u64,
    /// free mode: answers of "*" middleware entries come from here
    pub rng: Mutex<u64>,
    /// signals of the harness-only ops signal / wait, also raised and awaited by a "G" reducer
    pub signals: Arc<(Mutex<std::collections::HashSet<String>>, std::sync::Condvar)>,
}

impl Env {
    pub fn new(cfg: Config, prefix: &str, seed: u64) -> Arc<Env> {
        Arc::new(Env {
            cfg,
            store: OnceLock::new(),
            prefix: prefix.to_string(),
            epoch: sched().epoch(),
            rng: Mutex::new(seed | 1),
            signals: Arc::new((Mutex::new(Default::default()), std::sync::Condvar::new())),
        })
    }
    fn rd(&self) -> Value {
        if self.cfg.cb_reads {
            if let Some(s) = self.store.get().and_then(|w| w.upgrade()) {
                return s.get_state().json();
            }
        }
        json!([])
    }
    fn next_rand(&self) -> u64 {
        let mut g = self.rng.lock().unwrap();
        let mut x = *g;
        x ^= x << 13;
        x ^= x >> 7;
        x ^= x << 17;
        *g = x;
        x
    }
    fn cb(&self, what: &str, who: &str, st: Value, a: i64, effs: Value) -> String {

        let d = json!({"what": what, "who": who, "st": st, "a": a, "rd": self.rd(), "effs": effs});
        // a thread of an earlier run that is still winding down is ignored (epoch)
        sched().point_of(Some(self.epoch), Class::Gate, "cb", d)
    }
}

thread_local! {
    /// descriptions of the effects the scripted reducers returned for the action being processed
    static EFFS: RefCell<(i64, Vec<Value>)> = RefCell::new((0, Vec::new()));
}

fn make_effect(env: &Arc<Env>, e: &EffDesc) -> Option<Effect<Act>> {
    let envc = env.clone();
    let a = e.a;
    match e.k.as_str() {
        "none" => None,
        "task" => Some(Effect::Task(Box::new(move || {
            let who = sched().current_role();
            envc.cb("effect", &who, json!([]), a, json!([]));
        }))),
        "panic" => Some(Effect::Task(Box::new(move || {
            let who = sched().current_role();
            envc.cb("effect", &who, json!([]), a, json!([]));
            panic!("scripted effect panics");
        }))),
        "fn" => Some(Effect::Function(
            "fn".to_string(),
            Box::new(move || {
                let who = sched().current_role();
                envc.cb("effect", &who, json!([]), a, json!([]));
                Ok(Box::new(()) as Box<dyn Any + Send>)
            }),
        )),
        "act" => Some(Effect::Action(env.cfg.act(a))),
        "thunk" => Some(Effect::Thunk(make_thunk(env, a))),
        _ => None,
    }
}

pub fn make_thunk(env: &Arc<Env>, a: i64) -> Box<dyn FnOnce(Box<dyn Dispatcher<Act>>) + Send> {
    let envc = env.clone();
    Box::new(move |dispatcher| {
        let who = sched().current_role();
        envc.cb("effect", &who, json!([]), a, json!([]));
        let _ = dispatcher.dispatch(envc.cfg.act(a));
        // the thunk is still running after its dispatch returned: the action is queued by now
        let d = json!({"what": "after", "who": who, "st": [], "a": a, "rd": [], "effs": []});
        sched().point_of(Some(envc.epoch), Class::Gate, "cb", d);
    })
}

pub fn make_task(env: &Arc<Env>) -> Box<dyn FnOnce() + Send> {
    let envc = env.clone();
    Box::new(move || {
        let who = sched().current_role();
        envc.cb("effect", &who, json!([]), 0, json!([]));
        if envc.cfg.slow_effect_us > 0 && sched().is_free() {
            std::thread::sleep(std::time::Duration::from_micros(envc.cfg.slow_effect_us));
        }
    })
}

// ------------------------------------------------------------------------------------ scripted reducer

pub struct SReducer {
    pub id: String,
    pub env: Arc<Env>,
}

impl Reducer<St, Act> for SReducer {
    fn reduce(&self, state: &St, action: &Act) -> DispatchOp<St, Act> {
        self.env
            .cb("reduce", &self.id, state.json(), action.id, json!([]));
        if self.env.cfg.slow_reduce_us > 0 {
            std::thread::sleep(std::time::Duration::from_micros(self.env.next_rand() % self.env.cfg.slow_reduce_us));
        }
        let mut ns = state.clone();
        ns.0.push((self.id.clone(), action.id));
        let entry = self
            .env
            .cfg
            .red_script
            .get(&self.id)
            .and_then(|m| m.get(&action.kind.to_string()))
            .cloned()
            .unwrap_or(RedEntry {
                op: "D".into(),
                eff: EffDesc {
                    k: "none".into(),
                    a: 0,
                },
            });
        let eff = make_effect(&self.env, &entry.eff);
        if eff.is_some() {
            EFFS.with(|c| {
                let mut c = c.borrow_mut();
                if c.0 != action.id {
                    *c = (action.id, Vec::new());
                }
                c.1.push(json!({"k": entry.eff.k, "a": entry.eff.a}));
            });
        }
        if entry.op == "G" {
            // held up by something outside the store: say so, then wait to be let go
            let (m, cv) = &*self.env.signals;
            let mut g = m.lock().unwrap();
            g.insert("in".to_string());
            cv.notify_all();
            while !g.contains("go") {
                g = cv.wait(g).unwrap();
            }
        }
        if entry.op == "K" {
            DispatchOp::Keep(ns, eff)
        } else {
            DispatchOp::Dispatch(ns, eff)
        }
    }
}

// ------------------------------------------------------------------------------------ scripted middleware

pub struct SMiddleware {
    pub id: String,
    pub env: Arc<Env>,
    last: Mutex<i64>,
}

impl SMiddleware {
    pub fn new(id: &str, env: &Arc<Env>) -> Self {
        SMiddleware {
            id: id.to_string(),
            env: env.clone(),
            last: Mutex::new(0),
        }
    }
    fn verdict(&self, phase: &str, action: &Act, given: String) -> Result<MiddlewareOp, StoreError> {
        let tbl = self
            .env
            .cfg
            .mw_script
            .get(&self.id)
            .and_then(|m| m.get(phase))
            .and_then(|m| m.get(&action.kind.to_string()))
            .cloned()
            .unwrap_or_else(|| "C".to_string());
        let v = if tbl == "*" {
            if given.is_empty() || given == "-" {
                // free mode: pick one
                let all = ["C".to_string(), "D".to_string(), "B".to_string(), "E".to_string()];
                let vs: &[String] = if self.env.cfg.mw_verdicts.is_empty() { &all } else { &self.env.cfg.mw_verdicts };
                vs[(self.env.next_rand() % vs.len() as u64) as usize].clone()
            } else {
                given
            }
        } else {
            tbl
        };
        sched().set_left_ans(&v);
        match v.as_str() {
            "D" => Ok(MiddlewareOp::DoneAction),
            "B" => Ok(MiddlewareOp::BreakChain),
            "E" => Err(StoreError::MiddlewareError(format!("scripted error {}", self.id))),
            _ => Ok(MiddlewareOp::ContinueAction),
        }
    }
}

fn describe_effects(action: &Act, effects: &[Effect<Act>]) -> Value {
    let scripted: Vec<Value> = EFFS.with(|c| {
        let c = c.borrow();
        if c.0 == action.id {
            c.1.clone()
        } else {
            Vec::new()
        }
    });
    if scripted.len() == effects.len() {
        return Value::Array(scripted);
    }
    // the store holds something else than what the reducers returned: describe what is there
    Value::Array(
        effects
            .iter()
            .map(|e| match e {
                Effect::Action(a) => json!({"k": "act", "a": a.id, "actual": true}),
                Effect::Task(_) => json!({"k": "task", "a": 0, "actual": true}),
                Effect::Thunk(_) => json!({"k": "thunk", "a": 0, "actual": true}),
                Effect::Function(_, _) => json!({"k": "fn", "a": 0, "actual": true}),
            })
            .collect(),
    )
}

impl Middleware<St, Act> for SMiddleware {
    fn before_reduce(
        &self,
        action: &Act,
        state: &St,
        _dispatcher: Arc<dyn Dispatcher<Act>>,
    ) -> Result<MiddlewareOp, StoreError> {
        *self.last.lock().unwrap() = action.id;
        let given = self
            .env
            .cb("before_reduce", &self.id, state.json(), action.id, json!([]));
        self.verdict("before_reduce", action, given)
    }

    fn before_effect(
        &self,
        action: &Act,
        state: &St,
        effects: &mut Vec<Effect<Act>>,
        _dispatcher: Arc<dyn Dispatcher<Act>>,
    ) -> Result<MiddlewareOp, StoreError> {
        *self.last.lock().unwrap() = action.id;
        let effs = describe_effects(action, effects);
        let given = self
            .env
            .cb("before_effect", &self.id, state.json(), action.id, effs);
        let how = self
            .env
            .cfg
            .mw_remove
            .get(&self.id)
            .and_then(|m| m.get(&action.kind.to_string()))
            .cloned()
            .unwrap_or_else(|| "none".to_string());
        match how.as_str() {
            "first" => {
                if !effects.is_empty() {
                    effects.remove(0);
                    EFFS.with(|c| {
                        let mut c = c.borrow_mut();
                        if c.0 == action.id && !c.1.is_empty() {
                            c.1.remove(0);
                        }
                    });
                }
            }
            "all" => {
                effects.clear();
                EFFS.with(|c| {
                    let mut c = c.borrow_mut();
                    if c.0 == action.id {
                        c.1.clear();
                    }
                });
            }
            _ => {}
        }
        self.verdict("before_effect", action, given)
    }

    fn before_dispatch(
        &self,
        action: &Act,
        state: &St,
        _dispatcher: Arc<dyn Dispatcher<Act>>,
    ) -> Result<MiddlewareOp, StoreError> {
        *self.last.lock().unwrap() = action.id;
        let given = self
            .env
            .cb("before_dispatch", &self.id, state.json(), action.id, json!([]));
        let v = self.verdict("before_dispatch", action, given);
        let a2 = self
            .env
            .cfg
            .mw_disp
            .get(&self.id)
            .and_then(|m| m.get(&action.kind.to_string()))
            .cloned()
            .unwrap_or(0);
        if a2 != 0 {
            // the middleware uses the dispatcher it was handed (on the reducer thread)
            let _ = _dispatcher.dispatch(self.env.cfg.act(a2));
        }
        v
    }

    fn on_error(&self, _error: StoreError) {
        let a = *self.last.lock().unwrap();
        self.env.cb("on_error", &self.id, json!([]), a, json!([]));
    }
}

// ------------------------------------------------------------------------------------ scripted subscriber

pub struct SSubscriber {
    pub id: String,
    pub env: Arc<Env>,
    /// forward every notification as action id+10 to this other store (two-store runs)
    pub fwd: Option<Arc<Shared>>,
    /// gives the object an allocation size nothing else in the process uses, so that the allocator
    /// hands the address of a released subscriber to the next one registered by the same thread:
    /// anything that identifies subscribers by address alone then confuses the two
    pub pad: [u8; SUB_PAD],
}
pub const SUB_PAD: usize = 920;

impl Subscriber<St, Act> for SSubscriber {
    fn on_notify(&self, state: &St, action: &Act) {
        self.env
            .cb("notify", &self.id, state.json(), action.id, json!([]));
        if self.env.cfg.slow_deliver_us > 0 && sched().current_role().contains("Ch") {
            std::thread::sleep(std::time::Duration::from_micros(self.env.next_rand() % self.env.cfg.slow_deliver_us));
        }
        if let Some(b) = &self.fwd {
            if self.env.epoch != sched().epoch() {
                return;
            }
            // this thread acts as a client of the other store for one call
            let st = b.env.prefix.clone();
            let a = action.id + 10;
            sched().point_st(&st, Class::Gate, "xop", json!({"op": "dispatch", "a": a, "via": "impl", "s": "-"}));
            let r = TStore::dispatch(&b.store, b.env.cfg.act(a));
            sched().point_st(&st, Class::Gate, "op.end", json!({"op": "dispatch", "res": if r.is_ok() { "Ok" } else { "Err" }}));
        }
    }
    fn on_unsubscribe(&self) {
        self.env.cb("unsub", &self.id, json!([]), 0, json!([]));
    }
}

/// the scripted selector: number of entries of the state whose action has kind 1
pub struct KindSel {
    pub env: Arc<Env>,
}
impl Selector<St, i64> for KindSel {
    fn select(&self, state: &St) -> i64 {
        state
            .0
            .iter()
            .filter(|(_, a)| self.env.cfg.act(*a).kind == 1)
            .count() as i64
    }
}

// ------------------------------------------------------------------------------------ store set-up

pub fn build_store(env: &Arc<Env>) -> Result<Arc<TStore>, StoreError> {
    let cfg = &env.cfg;
    SLOW_CLONE_US.store(
        if sched().is_free() { cfg.slow_clone_us } else { 0 },
        std::sync::atomic::Ordering::Relaxed,
    );
    sched().hint_store(&env.prefix);
    sched().set_fine_reg(cfg.fine_reg);
    let mut b = StoreBuilder::new(St::default())
        .with_name(cfg.name.clone())
        .with_capacity(cfg.cap)
        .with_policy(policy(&cfg.pol));
    if cfg.init_reducers.is_empty() {
        b = b.without_reducer();
    } else {
        let rs: Vec<Box<dyn Reducer<St, Act> + Send + Sync>> = cfg
            .init_reducers
            .iter()
            .map(|id| {
                Box::new(SReducer {
                    id: id.clone(),
                    env: env.clone(),
                }) as Box<dyn Reducer<St, Act> + Send + Sync>
            })
            .collect();
        b = b.with_reducers(rs);
    }
    for m in &cfg.init_mws {
        b = b.add_middleware(Arc::new(SMiddleware::new(m, env)));
    }
    let store = b.build()?;
    let _ = env.store.set(Arc::downgrade(&store));
    Ok(store)
}

/// Client threads carry the names the crate gives its own threads of a same-named store (the first
/// client that of a delivery thread, the others that of pool workers, or the other way round in every
/// second run): nothing the store does may depend on what the calling thread is called.
pub fn client_thread_name(store_name: &str, role: &str, flip: bool) -> String {
    if (role == "c1") != flip {
        format!("{}-channeled-subscriber", store_name)
    } else {
        format!("{}-pool_thread_{}", store_name, role)
    }
}

// ------------------------------------------------------------------------------------ program interpreter

type BoxIter = Box<dyn Iterator<Item = (St, Act)> + Send>;

/// what the client threads of one run share
pub struct Shared {
    pub env: Arc<Env>,
    pub store: Arc<TStore>,
    pub subscriptions: Mutex<HashMap<String, Arc<Mutex<Box<dyn Subscription>>>>>,
    pub iters: Mutex<HashMap<String, BoxIter>>,
    pub signals: Arc<(Mutex<std::collections::HashSet<String>>, std::sync::Condvar)>,
    /// subscriber objects registered in more than one store (two-store runs)
    pub shared_subs: Arc<Mutex<HashMap<String, Arc<SSubscriber>>>>,
    /// the other stores of the run, by key (two-store runs)
    pub peers: Mutex<HashMap<String, Arc<Shared>>>,
}

impl Shared {
    pub fn new(env: Arc<Env>, store: Arc<TStore>) -> Arc<Shared> {
        let signals = env.signals.clone();
        Arc::new(Shared {
            env,
            store,
            subscriptions: Mutex::new(HashMap::new()),
            iters: Mutex::new(HashMap::new()),
            signals,
            shared_subs: Arc::new(Mutex::new(HashMap::new())),
            peers: Mutex::new(HashMap::new()),
        })
    }
}

pub fn metrics_json(store: &Arc<TStore>) -> Value {
    let m = store.get_metrics();
    json!({
        "received": m.action_received, "dropped": m.action_dropped, "reduced": m.action_reduced,
        "effIssued": m.effect_issued, "mwExecuted": m.middleware_executed, "notified": m.state_notified,
        "subNotified": m.subscriber_notified, "errors": m.error_occurred
    })
}

/// run one public call; returns the `res` of its op.end event
pub fn run_op(sh: &Arc<Shared>, o: &OpDesc) -> Value {
    let env = &sh.env;
    let store = &sh.store;
    match o.op.as_str() {
        "dispatch" => {
            let act = env.cfg.act(o.a);
            let r = match o.via.as_str() {
                "trait" => Dispatcher::dispatch(store, act),
                "store" => <TStore as Store<St, Act>>::dispatch(store, act),
                _ => TStore::dispatch(store, act), // the inherent method (`store.dispatch` on an Arc resolves to the Dispatcher trait)
            };
            json!(if r.is_ok() { "Ok" } else { "Err" })
        }
        "close" => {
            store.close();
            json!("ok")
        }
        "stop" => {
            let t0 = Instant::now();
            if o.via == "store" {
                <TStore as Store<St, Act>>::stop(store); // through the Store trait
            } else {
                store.stop();
            }
            // stop() gives up waiting after 3 s: a call that needed that is reported as such
            json!(if t0.elapsed() >= std::time::Duration::from_millis(2500) { "timeout" } else { "ok" })
        }
        "drop_store" => {
            let t0 = Instant::now();
            let d = DroppableStore::new(store.clone());
            drop(d);
            json!(if t0.elapsed() >= std::time::Duration::from_millis(2500) { "timeout" } else { "ok" })
        }
        "get_state" => store.get_state().json(),
        "metrics" => metrics_json(store),
        "add_sub" => {
            let kind = env.cfg.subs.get(&o.s).map(|c| c.kind.clone()).unwrap_or_default();
            let sub: Box<dyn Subscription> = if kind == "sel" {
                let envc = env.clone();
                let id = o.s.clone();
                store.subscribe_with_selector(KindSel { env: env.clone() }, move |v: i64, a: Act| {

                    let d = json!({"what": "change", "who": id, "st": [], "a": a.id, "rd": envc.rd(), "effs": [], "val": v});
                    sched().point_of(Some(envc.epoch), Class::Gate, "cb", d);
                })
            } else if o.via == "shared" {
                // the same subscriber object in every store it is registered in
                let obj = sh
                    .shared_subs
                    .lock()
                    .unwrap()
                    .entry(o.s.clone())
                    .or_insert_with(|| {
                        Arc::new(SSubscriber {
                            id: o.s.clone(),
                            env: env.clone(),
                            fwd: None,
                            pad: [0; SUB_PAD],
                        })
                    })
                    .clone();
                store.add_subscriber(obj)
            } else {
                let fwd = o
                    .via
                    .strip_prefix("fwd:")
                    .and_then(|k| sh.peers.lock().unwrap().get(k).cloned());
                let obj = Arc::new(SSubscriber {
                    id: o.s.clone(),
                    env: env.clone(),
                    fwd,
                    pad: [0; SUB_PAD],
                });
                if o.via == "store" {
                    <TStore as Store<St, Act>>::add_subscriber(store, obj) // through the Store trait
                } else {
                    store.add_subscriber(obj)
                }
            };
            sh.subscriptions
                .lock()
                .unwrap()
                .insert(o.s.clone(), Arc::new(Mutex::new(sub)));
            json!("ok")
        }
        "subscribed" => {
            let c = env.cfg.subs.get(&o.s).cloned().unwrap_or(SubCfg {
                kind: "chan".into(),
                cap: 1,
                pol: "block".into(),
            });
            sched().hint_chan(&format!("{}{}", env.prefix, o.s));
            let user = Box::new(SSubscriber {
                id: o.s.clone(),
                env: env.clone(),
                fwd: None,
                pad: [0; SUB_PAD],
            });
            let r = if o.via == "store" {
                <TStore as Store<St, Act>>::subscribed_with(store, c.cap, policy(&c.pol), user) // Store trait
            } else if o.via == "default" {
                store.subscribed(user) // default capacity (16) and BlockOnFull
            } else {
                store.subscribed_with(c.cap, policy(&c.pol), user)
            };
            match r {
                Ok(sub) => {
                    sh.subscriptions
                        .lock()
                        .unwrap()
                        .insert(o.s.clone(), Arc::new(Mutex::new(sub)));
                    // the channel must have been created with the capacity asked for (16 for subscribed())
                    let want = if o.via == "default" { 16 } else { c.cap as i64 };
                    match sched().chan_cap(&format!("{}{}", env.prefix, o.s)) {
                        Some(got) if got != want => json!(format!("capacity:{}", got)),
                        _ => json!("ok"),
                    }
                }
                Err(_) => json!("err"),
            }
        }
        "iter" => {
            sched().hint_chan(&format!("{}{}", env.prefix, o.s));
            let it: BoxIter = Box::new(store.iter());
            sh.iters.lock().unwrap().insert(o.s.clone(), it);
            json!("ok")
        }
        "unsub" => {
            let h = sh.subscriptions.lock().unwrap().get(&o.s).cloned();
            if let Some(h) = h {
                h.lock().unwrap().unsubscribe();
            }
            json!("ok")
        }
        "next" => {
            let it = sh.iters.lock().unwrap().remove(&o.s);
            match it {
                Some(mut it) => {
                    let r = it.next();
                    sh.iters.lock().unwrap().insert(o.s.clone(), it);
                    match r {
                        Some((st, a)) => json!({"st": st.json(), "a": a.id}),
                        None => json!({"st": [], "a": -1}),
                    }
                }
                None => json!({"st": [], "a": -1}),
            }
        }
        "drop_iter" => {
            let it = sh.iters.lock().unwrap().remove(&o.s);
            drop(it);
            json!("ok")
        }
        "add_reducer" => {
            store.add_reducer(Box::new(SReducer {
                id: o.s.clone(),
                env: env.clone(),
            }));
            json!("ok")
        }
        "add_mw" => {
            store.add_middleware(Arc::new(SMiddleware::new(&o.s, env)));
            json!("ok")
        }
        "signal" => {
            sh.signals.0.lock().unwrap().insert(o.s.clone());
            sh.signals.1.notify_all();
            json!("ok")
        }
        "wait" => {
            let mut g = sh.signals.0.lock().unwrap();
            while !g.contains(&o.s) {
                g = sh.signals.1.wait(g).unwrap();
            }
            json!("ok")
        }
        "await_end" => {
            // harness only: until the reducer loop of this store has ended (at most 9 s)
            let t0 = Instant::now();
            while !sched().loop_ended(&env.prefix) && t0.elapsed() < std::time::Duration::from_secs(9) {
                std::thread::sleep(std::time::Duration::from_micros(200));
            }
            json!("ok")
        }
        "task" => {
            Dispatcher::dispatch_task(store, make_task(env));
            json!("ok")
        }
        "thunk" => {
            Dispatcher::dispatch_thunk(store, make_thunk(env, o.a));
            json!("ok")
        }
        _ => json!("unknown-op"),
    }
}

/// body of a client thread
pub fn client_main(sh: Arc<Shared>, role: String, prog: Vec<OpDesc>) {
    let mut m = HashMap::new();
    m.insert(String::new(), sh);
    client_main_multi(m, role, prog)
}

/// body of a client thread of a run with several stores: `stores` maps OpDesc.st to the store
pub fn client_main_multi(stores: HashMap<String, Arc<Shared>>, role: String, prog: Vec<OpDesc>) {
    let s = sched();
    s.register(&role);
    s.point(Class::Gate, "start", json!(0));
    for o in prog.iter() {
        let sh = match stores.get(&o.st) {
            Some(sh) => sh,
            None => continue,
        };
        s.set_cur_store(&sh.env.prefix);
        let res = run_op(sh, o);
        s.point(Class::Gate, "op.end", json!({"op": o.op, "res": res}));
    }
    s.set_cur_store("");
    s.point(Class::Final, "prog.end", json!(0));
}

pub fn install() {
    rs_store::verif::set_describer(describer);
    rs_store::verif::install(Arc::new(sched::HookTracer));
    std::panic::set_hook(Box::new(|_| {}));
}
