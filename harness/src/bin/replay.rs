//! Controlled replay: make the real crate take, step by step, a behaviour of the specification.
//!
//! usage: replay <behaviours.json> [--trace out.ndjson] [--from k] [--timeout-ms n]
//! One JSON line per behaviour on stdout:
//!   {"id":..,"outcome":"followed"|"diverged"|"blocked"|"error","step":k,"expected":..,"got":..,"tail":"clean"|"hung"}
use harness::sched::{sched, Mode};
use harness::*;
use serde_json::{json, Value};
use std::collections::HashMap;
use std::io::Write;
use std::sync::Arc;
use std::time::{Duration, Instant};

fn main() {
    let args: Vec<String> = std::env::args().collect();
    let file = &args[1];
    let mut trace_path: Option<String> = None;
    let mut from = 0usize;
    let mut timeout = Duration::from_millis(10_000);
    let mut fail_fast = false;
    let mut i = 2;
    while i < args.len() {
        match args[i].as_str() {
            "--fail-fast" => fail_fast = true,
            "--trace" => {
                trace_path = Some(args[i + 1].clone());
                i += 1;
            }
            "--from" => {
                from = args[i + 1].parse().unwrap();
                i += 1;
            }
            "--timeout-ms" => {
                timeout = Duration::from_millis(args[i + 1].parse().unwrap());
                i += 1;
            }
            _ => {}
        }
        i += 1;
    }
    let text = std::fs::read_to_string(file).expect("read behaviours");
    let doc: Value = serde_json::from_str(&text).expect("parse behaviours");
    let cfg: Config = serde_json::from_value(doc["config"].clone()).expect("config");
    let behaviours = doc["behaviours"].as_array().cloned().unwrap_or_default();
    let mut trace_out = trace_path.map(|p| {
        std::fs::OpenOptions::new()
            .create(true)
            .append(true)
            .open(p)
            .expect("open trace")
    });
    install();
    let out = std::io::stdout();
    for (bi, b) in behaviours.iter().enumerate() {
        if bi < from {
            continue;
        }
        let (res, log) = replay_one(&cfg, b, timeout);
        if let Some(f) = trace_out.as_mut() {
            let reset = json!({"seq": 0, "t": "-", "ev": "reset", "d": {"id": b["id"], "prog": b["prog"], "mode": "gated"}, "notes": [], "ans": "-"});
            writeln!(f, "{}", reset).unwrap();
            for e in &log {
                writeln!(f, "{}", e.to_json()).unwrap();
            }
            f.flush().unwrap();
        }
        let mut r = res;
        r["index"] = json!(bi);
        r["id"] = b["id"].clone();
        r["events"] = json!(log.len());
        {
            let mut o = out.lock();
            writeln!(o, "{}", r).unwrap();
            o.flush().unwrap();
        }
        if fail_fast && (r["outcome"] != "followed" || r["tail"] == "hung") {
            std::process::exit(3);
        }
        if r["tail"] == "hung" {
            // threads of this run cannot be recovered: the caller restarts us after this behaviour
            std::process::exit(3);
        }
    }
}

fn replay_one(cfg: &Config, b: &Value, timeout: Duration) -> (Value, Vec<sched::Event>) {
    let s = sched();
    s.reset(Mode::Gated);
    s.register("main");
    let env = Env::new(cfg.clone(), "", 1);
    let store = match build_store(&env) {
        Ok(st) => st,
        Err(e) => {
            return (
                json!({"outcome": "error", "step": 0, "got": format!("build failed: {:?}", e)}),
                s.take_log(),
            )
        }
    };
    let sh = Shared::new(env.clone(), store.clone());
    let progs: HashMap<String, Vec<OpDesc>> =
        serde_json::from_value(b["prog"].clone()).expect("prog");
    let mut handles = Vec::new();
    let mut names: Vec<String> = progs.keys().cloned().collect();
    names.sort();
    for c in &names {
        let shc = sh.clone();
        let role = c.clone();
        let p = progs[c].clone();
        handles.push(
            std::thread::Builder::new()
                .name(client_thread_name(&env.cfg.name, &role, b["id"].as_u64().unwrap_or(0) % 2 == 1))
                .spawn(move || client_main(shc, role, p))
                .unwrap(),
        );
    }
    let mut result = json!({"outcome": "followed", "step": -1});
    for c in &names {
        if s.wait_event(c, timeout).is_none() {
            result = json!({"outcome": "error", "step": 0, "got": "client did not start"});
        }
    }
    let steps = b["steps"].as_array().cloned().unwrap_or_default();
    if result["outcome"] == "followed" {
        for (k, l) in steps.iter().enumerate() {
            let role = l["t"].as_str().unwrap_or("?");
            let ans = l["ans"].as_str().unwrap_or("-");
            let e = match s.step(role, ans, timeout) {
                Some(e) => e,
                None => {
                    result = json!({"outcome": "blocked", "step": k, "expected": l,
                                    "got": format!("thread {} did not reach its next point", role)});
                    break;
                }
            };
            let same = e.ev == l["ev"].as_str().unwrap_or("")
                && e.d == l["d"]
                && Value::Array(e.notes.clone()) == l["notes"]
                && e.ans == ans;
            if !same {
                result = json!({"outcome": "diverged", "step": k, "expected": l, "got": e.to_json()});
                break;
            }
            // events nobody asked for, from threads the model does not know
            let stray: Vec<(String, String)> = s
                .pending_roles()
                .into_iter()
                .filter(|(r, _)| r.starts_with('?'))
                .collect();
            if !stray.is_empty() {
                result = json!({"outcome": "diverged", "step": k, "expected": l,
                                "got": format!("unexpected thread(s) {:?}", stray)});
                break;
            }
        }
    }
    // blocked probe: the model says this parked thread cannot take its next step in this state
    // (full queue, held lock, join of something still running): release it and see that it waits
    if result["outcome"] == "followed" && b["probe"].is_object() {
        let t = b["probe"]["t"].as_str().unwrap_or("?").to_string();
        let ms = b["probe"]["ms"].as_u64().unwrap_or(300);
        if s.is_parked(&t) && !s.has_pending(&t) {
            s.release(&t, "-");
            match s.wait_event(&t, Duration::from_millis(ms)) {
                Some(e) => {
                    result = json!({"outcome": "probe_failed", "step": steps.len(), "expected": b["probe"],
                                    "got": e.to_json()});
                }
                None => {
                    result["probe"] = json!("waited");
                }
            }
        } else {
            result["probe"] = json!("not parked");
        }
    }
    // let everything run to the end
    s.set_mode(Mode::Free);
    let expect_hang = b["end"] == "deadlock" && result["outcome"] == "followed";
    let tail = finish(handles, store, expect_hang);
    result["tail"] = json!(tail);
    s.unregister();
    (result, s.take_log())
}

fn finish(
    handles: Vec<std::thread::JoinHandle<()>>,
    store: Arc<TStore>,
    expect_hang: bool,
) -> &'static str {
    // a behaviour that ends in a deadlock of the model: only confirm that the threads are stuck
    let deadline = Instant::now()
        + if expect_hang {
            Duration::from_millis(400)
        } else {
            Duration::from_secs(8)
        };
    for h in handles {
        while !h.is_finished() {
            if Instant::now() > deadline {
                return "hung";
            }
            std::thread::sleep(Duration::from_millis(1));
        }
        let _ = h.join();
    }
    sched().set_mode(Mode::Off); // the clean-up stop is not part of the behaviour
    let t0 = Instant::now();
    let stopper = std::thread::spawn(move || {
        store.stop();
    });
    while !stopper.is_finished() {
        if Instant::now() > deadline + Duration::from_secs(5) {
            return "hung";
        }
        std::thread::sleep(Duration::from_millis(1));
    }
    if t0.elapsed() >= Duration::from_millis(2500) {
        return "slowstop"; // the clean-up stop() ran into its internal timeout
    }
    "clean"
}
