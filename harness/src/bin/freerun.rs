//! Free runs: client programs on OS threads, scheduled by the OS, with the event log recorded.
//!
//! usage: freerun <runs.json> --trace out.ndjson [--seed n]
//! runs.json: {"config": .., "runs": [{"id":.., "prog": {client: [ops]}}]}
//! One JSON line per run on stdout: {"id":..,"outcome":"finished"|"hung","events":n,"stop_ms":..}
use harness::sched::{sched, Mode};
use harness::*;
use serde_json::{json, Value};
use std::collections::HashMap;
use std::io::Write;
use std::time::{Duration, Instant};

fn main() {
    let args: Vec<String> = std::env::args().collect();
    let file = &args[1];
    let mut trace_path: Option<String> = None;
    let mut seed: u64 = 1;
    let mut from = 0usize;
    let mut i = 2;
    while i < args.len() {
        match args[i].as_str() {
            "--trace" => {
                trace_path = Some(args[i + 1].clone());
                i += 1;
            }
            "--seed" => {
                seed = args[i + 1].parse().unwrap();
                i += 1;
            }
            "--from" => {
                from = args[i + 1].parse().unwrap();
                i += 1;
            }
            _ => {}
        }
        i += 1;
    }
    let doc: Value = serde_json::from_str(&std::fs::read_to_string(file).expect("read")).expect("parse");
    let cfg: Config = serde_json::from_value(doc["config"].clone()).expect("config");
    let runs = doc["runs"].as_array().cloned().unwrap_or_default();
    let mut trace_out = trace_path.map(|p| {
        std::fs::OpenOptions::new().create(true).append(true).open(p).expect("open trace")
    });
    install();
    for (ri, r) in runs.iter().enumerate() {
        if ri < from {
            continue;
        }
        let s = sched();
        s.reset(Mode::Free);
        s.set_jitter(seed.wrapping_mul(0x9E3779B97F4A7C15).wrapping_add(ri as u64 * 7919 + 1));
        s.register("main");
        let env = Env::new(cfg.clone(), "", seed.wrapping_add(ri as u64 * 104729));
        let store = build_store(&env).expect("build");
        let sh = Shared::new(env.clone(), store.clone());
        let progs: HashMap<String, Vec<OpDesc>> = serde_json::from_value(r["prog"].clone()).expect("prog");
        let mut handles = Vec::new();
        let mut names: Vec<String> = progs.keys().cloned().collect();
        names.sort();
        for c in &names {
            let shc = sh.clone();
            let role = c.clone();
            let p = progs[c].clone();
            // client threads carry the name a pool worker of a same-named store would have: nothing the
            // store does may depend on what the calling thread is called
            handles.push(
                std::thread::Builder::new()
                    .name(client_thread_name(&env.cfg.name, &role, ri % 2 == 1))
                    .spawn(move || client_main(shc, role, p))
                    .unwrap(),
            );
        }
        let deadline = Instant::now() + Duration::from_secs(10);
        let mut outcome = "finished";
        for h in handles {
            while !h.is_finished() {
                if Instant::now() > deadline {
                    outcome = "hung";
                    break;
                }
                std::thread::sleep(Duration::from_micros(200));
            }
            if outcome == "hung" {
                break;
            }
            let _ = h.join();
        }
        let mut stop_ms = 0u128;
        if outcome == "finished" {
            let t0 = Instant::now();
            s.set_mode(Mode::Off); // the clean-up stop is not part of the program
            let st = store.clone();
            let stopper = std::thread::spawn(move || st.stop());
            while !stopper.is_finished() {
                if t0.elapsed() > Duration::from_secs(8) {
                    outcome = "hung";
                    break;
                }
                std::thread::sleep(Duration::from_micros(200));
            }
            stop_ms = t0.elapsed().as_millis();
        }
        s.unregister();
        let log = s.take_log();
        if let Some(f) = trace_out.as_mut() {
            let reset = json!({"seq": 0, "t": "-", "ev": "reset", "d": {"id": r["id"], "prog": r["prog"], "mode": "free"}, "notes": [], "ans": "-"});
            writeln!(f, "{}", reset).unwrap();
            for e in &log {
                writeln!(f, "{}", e.to_json()).unwrap();
            }
            f.flush().unwrap();
        }
        println!("{}", json!({"index": ri, "id": r["id"], "outcome": outcome, "events": log.len(), "stop_ms": stop_ms as u64}));
        std::io::stdout().flush().unwrap();
        if outcome == "hung" {
            std::process::exit(3);
        }
    }
}
