//! Free runs with two stores in one process (C19).
//!
//! usage: twostores <runs.json> --trace out.ndjson [--seed n]
//! runs.json: {"configs": {"A": .., "B": ..}, "runs": [{"id":.., "prog": {client: [ops with "st"]}}]}
use harness::sched::{sched, Mode};
use harness::*;
use serde_json::{json, Value};
use std::collections::HashMap;
use std::io::Write;
use std::sync::{Arc, Mutex};
use std::time::{Duration, Instant};

fn main() {
    let args: Vec<String> = std::env::args().collect();
    let file = &args[1];
    let mut trace_path: Option<String> = None;
    let mut seed: u64 = 1;
    let mut from = 0usize;
    let mut i = 2;
    while i < args.len() {
        match args[i].as_str() {
            "--trace" => {
                trace_path = Some(args[i + 1].clone());
                i += 1;
            }
            "--seed" => {
                seed = args[i + 1].parse().unwrap();
                i += 1;
            }
            "--from" => {
                from = args[i + 1].parse().unwrap();
                i += 1;
            }
            _ => {}
        }
        i += 1;
    }
    let doc: Value = serde_json::from_str(&std::fs::read_to_string(file).expect("read")).expect("parse");
    let cfgs: HashMap<String, Config> = serde_json::from_value(doc["configs"].clone()).expect("configs");
    let runs = doc["runs"].as_array().cloned().unwrap_or_default();
    let mut trace_out = trace_path.map(|p| {
        std::fs::OpenOptions::new().create(true).append(true).open(p).expect("open trace")
    });
    install();
    for (ri, r) in runs.iter().enumerate() {
        if ri < from {
            continue;
        }
        let s = sched();
        s.reset(Mode::Free);
        s.set_jitter(seed.wrapping_mul(0x9E3779B97F4A7C15).wrapping_add(ri as u64 * 7919 + 1));
        s.register("main");
        let mut stores: HashMap<String, Arc<Shared>> = HashMap::new();
        let shared_subs = Arc::new(Mutex::new(HashMap::new()));
        let mut names: Vec<String> = cfgs.keys().cloned().collect();
        names.sort();
        for k in &names {
            let env = Env::new(cfgs[k].clone(), &format!("{}.", k), seed.wrapping_add(ri as u64 * 104729));
            let store = build_store(&env).expect("build");
            let sh = Shared::new(env, store);
            // the same registry of shared subscriber objects for every store
            let sh = Arc::new(Shared {
                env: sh.env.clone(),
                store: sh.store.clone(),
                subscriptions: Mutex::new(HashMap::new()),
                iters: Mutex::new(HashMap::new()),
                signals: sh.env.signals.clone(),
                shared_subs: shared_subs.clone(),
                peers: Mutex::new(HashMap::new()),
            });
            stores.insert(k.clone(), sh);
        }
        for k in &names {
            for k2 in &names {
                if k != k2 {
                    stores[k].peers.lock().unwrap().insert(k2.clone(), stores[k2].clone());
                }
            }
        }
        let progs: HashMap<String, Vec<OpDesc>> = serde_json::from_value(r["prog"].clone()).expect("prog");
        let mut handles = Vec::new();
        let mut clients: Vec<String> = progs.keys().cloned().collect();
        clients.sort();
        for c in &clients {
            let m = stores.clone();
            let role = c.clone();
            let p = progs[c].clone();
            handles.push(
                std::thread::Builder::new()
                    .name(client_thread_name("store", &role, ri % 2 == 1))
                    .spawn(move || client_main_multi(m, role, p))
                    .unwrap(),
            );
        }
        let deadline = Instant::now() + Duration::from_secs(10);
        let mut outcome = "finished";
        for h in handles {
            while !h.is_finished() {
                if Instant::now() > deadline {
                    outcome = "hung";
                    break;
                }
                std::thread::sleep(Duration::from_micros(200));
            }
            if outcome == "hung" {
                break;
            }
            let _ = h.join();
        }
        if outcome == "finished" {
            s.set_mode(Mode::Off);
            for k in &names {
                let st = stores[k].store.clone();
                let t0 = Instant::now();
                let stopper = std::thread::spawn(move || st.stop());
                while !stopper.is_finished() {
                    if t0.elapsed() > Duration::from_secs(8) {
                        outcome = "hung";
                        break;
                    }
                    std::thread::sleep(Duration::from_micros(200));
                }
            }
        }
        for k in &names {
            stores[k].peers.lock().unwrap().clear(); // break the reference cycle between the stores
        }
        s.unregister();
        let log = s.take_log();
        if let Some(f) = trace_out.as_mut() {
            let reset = json!({"seq": 0, "t": "-", "ev": "reset", "d": {"id": r["id"], "prog": r["prog"], "mode": "free"}, "notes": [], "ans": "-", "st": ""});
            writeln!(f, "{}", reset).unwrap();
            for e in &log {
                writeln!(f, "{}", e.to_json()).unwrap();
            }
            f.flush().unwrap();
        }
        println!("{}", json!({"index": ri, "id": r["id"], "outcome": outcome, "events": log.len()}));
        std::io::stdout().flush().unwrap();
        if outcome == "hung" {
            std::process::exit(3);
        }
    }
}
