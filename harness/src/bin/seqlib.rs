//! Sequential sub-models replayed on the real types (no store scheduling involved).
//!
//! seqlib selector <file.json>   file: {"seqs":[{"inp":[v..],"out":[[v,a]..]}]}
//! prints one JSON line: {"checked":n,"distinct":n,"mismatch":null|{...}}
use rs_store::{Selector, SelectorSubscriber, Subscriber};
use serde_json::{json, Value};
use std::sync::{Arc, Mutex};

struct Ident;
impl Selector<i64, i64> for Ident {
    fn select(&self, s: &i64) -> i64 {
        *s
    }
}

fn selector(doc: &Value) -> Value {
    let seqs = doc["seqs"].as_array().cloned().unwrap_or_default();
    let mut checked = 0u64;
    for s in &seqs {
        let inp: Vec<i64> = s["inp"].as_array().unwrap().iter().map(|v| v.as_i64().unwrap()).collect();
        let exp: Vec<(i64, i64)> = s["out"]
            .as_array()
            .unwrap()
            .iter()
            .map(|p| (p[0].as_i64().unwrap(), p[1].as_i64().unwrap()))
            .collect();
        let got: Arc<Mutex<Vec<(i64, i64)>>> = Arc::new(Mutex::new(Vec::new()));
        let g2 = got.clone();
        let sub = SelectorSubscriber::new(Ident, move |v: i64, a: i64| {
            g2.lock().unwrap().push((v, a));
        });
        for (k, v) in inp.iter().enumerate() {
            let action = (k + 1) as i64;
            sub.on_notify(v, &action);
            // the callbacks so far must be exactly the expected ones up to this action
            let want: Vec<(i64, i64)> = exp.iter().cloned().filter(|(_, a)| *a <= action).collect();
            let have = got.lock().unwrap().clone();
            if want != have {
                return json!({"checked": checked, "mismatch": {"inp": inp, "after": action, "expected": want, "got": have}});
            }
        }
        checked += 1;
    }
    json!({"checked": checked, "mismatch": null})
}

/// spec/SelectorConc.tla: two notifiers of one subscriber object.  {"seqs":[{"prior":p,"order":[v1,v2],
/// "out":[..],"waits":bool}]}: the first caller is held inside its callback; where the model has the
/// second one waiting for the mutex, it must neither return nor deliver until the first is released.
fn selconc(doc: &Value) -> Value {
    use std::sync::atomic::{AtomicBool, AtomicU64, Ordering};
    let seqs = doc["seqs"].as_array().cloned().unwrap_or_default();
    let mut checked = 0u64;
    let mut waited = 0u64;
    for s in &seqs {
        let prior = s["prior"].as_i64().unwrap();
        let order: Vec<i64> = s["order"].as_array().unwrap().iter().map(|v| v.as_i64().unwrap()).collect();
        let exp: Vec<i64> = s["out"].as_array().unwrap().iter().map(|v| v.as_i64().unwrap()).collect();
        let waits = s["waits"].as_bool().unwrap();
        let got: Arc<Mutex<Vec<i64>>> = Arc::new(Mutex::new(Vec::new()));
        let armed = Arc::new(AtomicBool::new(false));
        let in_cb = Arc::new(AtomicU64::new(0));
        let gate = Arc::new((Mutex::new(false), Condvar::new()));
        let (g2, a2, i2, gt2) = (got.clone(), armed.clone(), in_cb.clone(), gate.clone());
        let sub = Arc::new(SelectorSubscriber::new(Ident, move |v: i64, _a: i64| {
            g2.lock().unwrap().push(v);
            if a2.load(Ordering::SeqCst) {
                i2.fetch_add(1, Ordering::SeqCst);
                let (m, cv) = &*gt2;
                let mut open = m.lock().unwrap();
                while !*open {
                    open = cv.wait(open).unwrap();
                }
            }
        }));
        if prior != 0 {
            sub.on_notify(&prior, &0);
            got.lock().unwrap().clear();
        }
        armed.store(true, Ordering::SeqCst);
        let fail = |what: &str, have: Vec<i64>| {
            json!({"checked": checked, "mismatch": {"prior": prior, "order": order, "expected": exp, "got": have, "what": what}})
        };
        let open_gate = || {
            let (m, cv) = &*gate;
            *m.lock().unwrap() = true;
            cv.notify_all();
        };
        if !waits {
            open_gate();
        }
        let (sa, va) = (sub.clone(), order[0]);
        let mut ha = Some(std::thread::spawn(move || sa.on_notify(&va, &1)));
        if waits {
            let t0 = Instant::now();
            while in_cb.load(Ordering::SeqCst) == 0 && t0.elapsed() < Duration::from_secs(3) {
                std::thread::sleep(Duration::from_micros(100));
            }
            if in_cb.load(Ordering::SeqCst) == 0 {
                open_gate();
                let _ = ha.take().unwrap().join();
                return fail("the first notifier did not reach its callback", got.lock().unwrap().clone());
            }
        } else {
            let _ = ha.take().unwrap().join();
        }
        let (sb, vb) = (sub.clone(), order[1]);
        let hb = std::thread::spawn(move || sb.on_notify(&vb, &2));
        if waits {
            let t0 = Instant::now();
            let mut early = false;
            while t0.elapsed() < Duration::from_millis(40) {
                if hb.is_finished() || in_cb.load(Ordering::SeqCst) > 1 || got.lock().unwrap().len() > 1 {
                    early = true;
                    break;
                }
                std::thread::sleep(Duration::from_micros(200));
            }
            let have = got.lock().unwrap().clone();
            open_gate();
            let _ = ha.take().unwrap().join();
            let _ = hb.join();
            if early {
                return fail("the second notifier went ahead while the first was still inside its callback", have);
            }
            waited += 1;
        } else {
            let _ = hb.join();
        }
        let have = got.lock().unwrap().clone();
        if have != exp {
            return fail("callbacks", have);
        }
        checked += 1;
    }
    json!({"checked": checked, "waited": waited, "mismatch": null})
}

// ------------------------------------------------------------------------------------ builder (C17)

use rs_store::{
    BackpressurePolicy, DispatchOp, Dispatcher, FnReducer, Middleware, MiddlewareOp, Reducer, StoreBuilder,
    StoreError,
};
use std::sync::Condvar;
use std::time::{Duration, Instant};

type St = Vec<(String, i64)>;

struct LogMw {
    id: String,
    log: Arc<Mutex<Vec<String>>>,
}
impl Middleware<St, i64> for LogMw {
    fn before_reduce(
        &self,
        _action: &i64,
        _state: &St,
        _dispatcher: Arc<dyn Dispatcher<i64>>,
    ) -> Result<MiddlewareOp, StoreError> {
        self.log.lock().unwrap().push(self.id.clone());
        Ok(MiddlewareOp::ContinueAction)
    }
}

struct ProbeSub {
    names: Arc<Mutex<Vec<String>>>,
}
impl Subscriber<St, i64> for ProbeSub {
    fn on_notify(&self, _s: &St, _a: &i64) {
        self.names
            .lock()
            .unwrap()
            .push(std::thread::current().name().unwrap_or("").to_string());
    }
}

/// tracer for the probes: remembers capacities of created channels, holds the reducer thread at
/// its first receive until told, and counts send events
#[derive(Default)]
struct ProbeState {
    caps: Vec<i64>,
    hold: bool,
    held: bool,
    sends_begun: u64,
    sends_ended: u64,
    fulls: u64,
}
struct Probe {
    st: Mutex<ProbeState>,
    cv: Condvar,
}
impl rs_store::verif::Tracer for Probe {
    fn point(&self, p: rs_store::verif::Point) {
        let mut g = self.st.lock().unwrap();
        match p.kind {
            "chan.new" => g.caps.push(p.n),
            "send.begin" => g.sends_begun += 1,
            "send.end" => g.sends_ended += 1,
            "send.full" => g.fulls += 1,
            "loop.wait" => {
                g.held = true;
                self.cv.notify_all();
                while g.hold {
                    g = self.cv.wait(g).unwrap();
                }
            }
            _ => {}
        }
    }
}

fn mk_reducer(id: &str) -> Box<dyn Reducer<St, i64> + Send + Sync> {
    let id = id.to_string();
    Box::new(FnReducer::from(move |s: &St, a: &i64| {
        let mut n = s.clone();
        n.push((id.clone(), *a));
        DispatchOp::Dispatch(n, None)
    }))
}

fn strs(v: &Value) -> Vec<String> {
    v.as_array().map(|a| a.iter().map(|x| x.as_str().unwrap_or("").to_string()).collect()).unwrap_or_default()
}

fn builder(doc: &Value) -> Value {
    let probe = Arc::new(Probe { st: Mutex::new(ProbeState::default()), cv: Condvar::new() });
    rs_store::verif::install(probe.clone());
    let seqs = doc["seqs"].as_array().cloned().unwrap_or_default();
    let full_probe_every = doc["policy_probe_every"].as_u64().unwrap_or(1);
    let mut checked = 0u64;
    let mut probed = 0u64;
    for (si, s) in seqs.iter().enumerate() {
        let log = Arc::new(Mutex::new(Vec::<String>::new()));
        // one middleware object per id within a sequence: handing the same Arc twice must register it twice
        let mut mw_objs: std::collections::HashMap<String, Arc<dyn Middleware<St, i64> + Send + Sync>> =
            std::collections::HashMap::new();
        let mut mw = |id: &str| -> Arc<dyn Middleware<St, i64> + Send + Sync> {
            mw_objs
                .entry(id.to_string())
                .or_insert_with(|| Arc::new(LogMw { id: id.to_string(), log: log.clone() }))
                .clone()
        };
        let mut b = if s["start"] == "new_with_reducer" {
            StoreBuilder::<St, i64>::new_with_reducer(Vec::new(), mk_reducer("r0"))
        } else {
            StoreBuilder::<St, i64>::new(Vec::new())
        };
        for c in s["seq"].as_array().unwrap() {
            let m = c["m"].as_str().unwrap();
            let sarg = c["s"].as_str().unwrap_or("").to_string();
            b = match m {
                "with_name" => b.with_name(sarg),
                "with_reducer" => b.with_reducer(mk_reducer(&sarg)),
                "with_reducers" => b.with_reducers(strs(&c["l"]).iter().map(|r| mk_reducer(r)).collect()),
                "add_reducer" => b.add_reducer(mk_reducer(&sarg)),
                "without_reducer" => b.without_reducer(),
                "with_capacity" => b.with_capacity(c["n"].as_u64().unwrap() as usize),
                "with_policy" => b.with_policy(match sarg.as_str() {
                    "oldest" => BackpressurePolicy::DropOldest,
                    "latest" => BackpressurePolicy::DropLatest,
                    _ => BackpressurePolicy::BlockOnFull,
                }),
                "with_middleware" => b.with_middleware(mw(&sarg)),
                "with_middlewares" => b.with_middlewares(strs(&c["l"]).iter().map(|m| mw(m)).collect()),
                "add_middleware" => b.add_middleware(mw(&sarg)),
                _ => b,
            };
        }
        {
            let mut g = probe.st.lock().unwrap();
            *g = ProbeState::default();
            g.hold = true; // the reducer thread waits at its first receive
        }
        let exp = &s["cfg"];
        let want_ok = s["ok"].as_bool().unwrap();
        let r = b.build();
        let fail = |what: &str, got: Value| json!({"checked": checked, "mismatch": {"seq": s["seq"], "what": what, "expected": exp, "got": got}});
        match r {
            Err(_) => {
                probe.st.lock().unwrap().hold = false;
                if want_ok {
                    return fail("build failed", json!("Err"));
                }
            }
            Ok(store) => {
                if !want_ok {
                    probe.st.lock().unwrap().hold = false;
                    probe.cv.notify_all();
                    store.stop();
                    return fail("build succeeded", json!("Ok"));
                }
                // capacity: what the dispatch channel was created with
                let cap = exp["cap"].as_i64().unwrap();
                {
                    let g = probe.st.lock().unwrap();
                    if g.caps.first().cloned() != Some(cap) {
                        let got = json!(g.caps);
                        drop(g);
                        probe.st.lock().unwrap().hold = false;
                        probe.cv.notify_all();
                        store.stop();
                        return fail("capacity", got);
                    }
                }
                // wait until the reducer thread is held at its first receive
                {
                    let mut g = probe.st.lock().unwrap();
                    let t0 = Instant::now();
                    while !g.held && t0.elapsed() < Duration::from_secs(5) {
                        let (g2, _) = probe.cv.wait_timeout(g, Duration::from_millis(50)).unwrap();
                        g = g2;
                    }
                }
                let names = Arc::new(Mutex::new(Vec::new()));
                let _sub = store.add_subscriber(Arc::new(ProbeSub { names: names.clone() }));
                // policy: fill the queue while nothing is consumed, then one more
                let pol = exp["pol"].as_str().unwrap();
                let do_policy = pol != "block" || (si as u64 % full_probe_every == 0);
                let mut expect_state_acts: Vec<i64> = vec![1];
                if do_policy && cap <= 16 {
                    probed += 1;
                    for i in 1..=cap {
                        if Dispatcher::dispatch(&store, i).is_err() {
                            probe.st.lock().unwrap().hold = false;
                            probe.cv.notify_all();
                            store.stop();
                            return fail("dispatch into a non-full queue failed", json!(i));
                        }
                    }
                    let st2 = store.clone();
                    let extra = cap + 1;
                    let h = std::thread::spawn(move || Dispatcher::dispatch(&st2, extra).is_ok());
                    let t0 = Instant::now();
                    // a drop policy returns at once; the blocking policy stays inside send
                    let mut observed = "block";
                    while t0.elapsed() < Duration::from_millis(40) {
                        if h.is_finished() {
                            break;
                        }
                        std::thread::sleep(Duration::from_micros(200));
                    }
                    let fulls = probe.st.lock().unwrap().fulls;
                    if h.is_finished() {
                        observed = if fulls > 0 { "oldest" } else { "latest" };
                    }
                    {
                        let mut g = probe.st.lock().unwrap();
                        g.hold = false;
                    }
                    probe.cv.notify_all();
                    let res_ok = h.join().unwrap_or(false);
                    if observed != pol {
                        store.stop();
                        return fail("policy", json!(observed));
                    }
                    expect_state_acts = match pol {
                        "oldest" => (2..=cap + 1).collect(),
                        "latest" => (1..=cap).collect(),
                        _ => (1..=cap + 1).collect(),
                    };
                    if (pol == "latest") == res_ok {
                        store.stop();
                        return fail("result of the extra dispatch", json!(res_ok));
                    }
                } else {
                    {
                        let mut g = probe.st.lock().unwrap();
                        g.hold = false;
                    }
                    probe.cv.notify_all();
                    let _ = Dispatcher::dispatch(&store, 1);
                }
                // let the reducer take everything first: stop() sends its exit marker through the
                // same policy and would evict a queued action under DropOldest
                let t0 = Instant::now();
                while (store.get_metrics().action_received as usize) < expect_state_acts.len()
                    && t0.elapsed() < Duration::from_secs(3)
                {
                    std::thread::sleep(Duration::from_micros(100));
                }
                store.stop();
                // reducers: chain and order
                let reds = strs(&exp["reds"]);
                let mut want_state: St = Vec::new();
                for a in &expect_state_acts {
                    for r in &reds {
                        want_state.push((r.clone(), *a));
                    }
                }
                let got_state = store.get_state();
                if got_state != want_state {
                    return fail("reducers", json!(got_state));
                }
                // middlewares: order, once per action
                let mws = strs(&exp["mws"]);
                let mut want_log = Vec::new();
                for _ in &expect_state_acts {
                    want_log.extend(mws.iter().cloned());
                }
                let got_log = log.lock().unwrap().clone();
                if got_log != want_log {
                    return fail("middlewares", json!(got_log));
                }
                // name: the store's threads carry it
                let nm = exp["name"].as_str().unwrap();
                let ns = names.lock().unwrap().clone();
                if ns.is_empty() || !ns.iter().all(|n| n.starts_with(&format!("{}-pool", nm))) {
                    return fail("name", json!(ns));
                }
            }
        }
        checked += 1;
    }
    rs_store::verif::uninstall();
    json!({"checked": checked, "probed": probed, "mismatch": null})
}

fn main() {
    let args: Vec<String> = std::env::args().collect();
    let doc: Value = serde_json::from_str(&std::fs::read_to_string(&args[2]).expect("read")).expect("parse");
    let r = match args[1].as_str() {
        "selector" => selector(&doc),
        "selconc" => selconc(&doc),
        "builder" => builder(&doc),
        _ => json!({"error": "unknown mode"}),
    };
    println!("{}", r);
}
